package main

// verifharness: runs generated and enumerated cases against the real gribigo code,
// pipes the observations to the Lean driver, classifies the outcome per property,
// shrinks failing cases and writes replay files and a JSON summary.

import (
	"bytes"
	"encoding/json"
	"flag"
	"fmt"
	"math/rand/v2"
	"os"
	"os/exec"
	"path/filepath"
	"sort"
	"strings"
	"sync"
	"syscall"
	"time"
)

// CaseSpec is one generated case: N inputs, and a runner that executes the real code on
// the inputs with indices keep (ascending) and returns the trace.
type CaseSpec struct {
	Name string
	N    int
	Run  func(keep []int) (*Trace, error)
	// Inputs renders the inputs without executing anything (used when execution kills the process).
	Inputs func() []string
	// Atomic: the outcome depends on scheduling; the trace of the failing run is kept as it is
	// (no shrinking, which would re-run it).
	Atomic bool
}

// Mode generates cases.
type Mode struct {
	Name string
	// Gen returns the idx-th case for the seed; nil when there are no more (enumerations).
	Gen func(seed uint64, idx int, tier string) *CaseSpec
	// Count returns how many cases the tier runs.
	Count func(tier string) int
	// Corpus returns hand-written cases that always run first.
	Corpus func() []*CaseSpec
	// Required lists coverage keys that must be reached, else the check is BROKEN.
	Required []string
	// Serial forbids running cases in parallel.
	Serial bool
	// Atomic: a case is one indivisible scenario (not a list of steps); it counts as non-trivial.
	Atomic bool
}

var modes = map[string]*Mode{}

// PropSpec says which driver complaints belong to a property.
type PropSpec struct {
	// Extra modes run after the primary one (their findings count for the property too)
	Extra    []string
	Mode     string
	Diffs    []string // DIFF what= prefixes
	Monitors []string // MONFAIL mon= names
}

var props = map[string]*PropSpec{}

func rngFor(seed uint64, idx int) *rand.Rand {
	return rand.New(rand.NewPCG(seed, uint64(idx)*0x9e3779b97f4a7c15+1))
}

func allKeep(n int) []int {
	k := make([]int, n)
	for i := range k {
		k[i] = i
	}
	return k
}

func field(line, key string) string {
	for _, f := range strings.Fields(line) {
		if strings.HasPrefix(f, key+"=") {
			return f[len(key)+1:]
		}
	}
	return ""
}

func relevant(ps *PropSpec, v *Verdict) (diffs, mons []string) {
	for _, d := range v.Diffs {
		w := field(d, "what")
		for _, p := range ps.Diffs {
			if strings.HasPrefix(w, p) {
				diffs = append(diffs, d)
				break
			}
		}
	}
	for _, m := range v.MonFails {
		w := field(m, "mon")
		for _, p := range ps.Monitors {
			if w == p {
				mons = append(mons, m)
				break
			}
		}
	}
	return
}

// Finding is a failing case.
type Finding struct {
	Case      string   `json:"case"`
	Kind      string   `json:"kind"` // monitor | diff | other
	Lines     []string `json:"lines"`
	Replay    string   `json:"replay"`
	Signature string   `json:"signature"`
	Known     bool     `json:"known"`
}

type Summary struct {
	Property  string         `json:"property"`
	Mode      string         `json:"mode"`
	Tier      string         `json:"tier"`
	Seed      uint64         `json:"seed"`
	Cases     int            `json:"cases"`
	Distinct  int            `json:"distinct_nontrivial"`
	Steps     int            `json:"steps"`
	Lines     int            `json:"lines"`
	Cov       map[string]int `json:"cov"`
	Findings  []*Finding     `json:"findings"`
	Broken    []string       `json:"broken"`
	Samples   []string       `json:"samples"`
	WallS     float64        `json:"wall_s"`
	Malformed map[string]int `json:"malformed,omitempty"`
}

// signature of a monitor failure: monitor name + the stable part of its message.
func signature(prop string, lines []string) string {
	if len(lines) == 0 {
		return prop + "/?"
	}
	l := lines[0]
	mon := field(l, "mon")
	if mon == "" {
		return prop + "/diff/" + field(l, "what")
	}
	rest := l
	if i := strings.Index(l, "mon="+mon); i >= 0 {
		rest = strings.TrimSpace(l[i+len("mon="+mon):])
	}
	// drop numbers so that the signature names the shape, not the instance
	var b strings.Builder
	for _, c := range rest {
		if c >= '0' && c <= '9' {
			continue
		}
		if c == ' ' {
			c = '-'
		}
		b.WriteRune(c)
	}
	s := b.String()
	if len(s) > 80 {
		s = s[:80]
	}
	return prop + "/" + mon + "/" + s
}

func loadKnown(path string) map[string]string {
	out := map[string]string{}
	b, err := os.ReadFile(path)
	if err != nil {
		return out
	}
	for _, l := range strings.Split(string(b), "\n") {
		l = strings.TrimSpace(l)
		if !strings.HasPrefix(l, "known:") {
			continue
		}
		sig := field(l, "signature")
		if sig != "" {
			out[sig] = l
		}
	}
	return out
}

func writeReplay(dir, prop, mode string, seed uint64, idx int, tier string, keep []int, t *Trace, v *Verdict, note string) string {
	os.MkdirAll(dir, 0o755)
	path := filepath.Join(dir, fmt.Sprintf("%s-%s-%d-%d.trace", prop, mode, seed, idx))
	f, err := os.Create(path)
	if err != nil {
		return ""
	}
	defer f.Close()
	ks := make([]string, len(keep))
	for i, k := range keep {
		ks[i] = fmt.Sprint(k)
	}
	fmt.Fprintf(f, "# replay prop=%s mode=%s seed=%d case=%d tier=%s keep=%s\n", prop, mode, seed, idx, tier, strings.Join(ks, ","))
	if note != "" {
		fmt.Fprintf(f, "# %s\n", note)
	}
	for _, l := range v.Diffs {
		fmt.Fprintf(f, "# %s\n", l)
	}
	for _, l := range v.MonFails {
		fmt.Fprintf(f, "# %s\n", l)
	}
	for _, l := range v.Others {
		fmt.Fprintf(f, "# %s\n", l)
	}
	for _, l := range t.Lines {
		fmt.Fprintln(f, l)
	}
	// the canonical text behind the body hashes that occur in the trace
	bodyMu.Lock()
	defer bodyMu.Unlock()
	for h, txt := range bodyTable {
		for _, l := range t.Lines {
			if strings.Contains(l, h) {
				fmt.Fprintf(f, "# body %s = %s\n", h, txt)
				break
			}
		}
	}
	return path
}

// ddmin shrinks keep while pred stays true.
func ddmin(keep []int, pred func([]int) bool, budget int) []int {
	n := 2
	for len(keep) >= 2 && budget > 0 {
		chunk := (len(keep) + n - 1) / n
		reduced := false
		for i := 0; i < len(keep) && budget > 0; i += chunk {
			end := i + chunk
			if end > len(keep) {
				end = len(keep)
			}
			cand := append(append([]int{}, keep[:i]...), keep[end:]...)
			if len(cand) == 0 {
				continue
			}
			budget--
			if pred(cand) {
				keep = cand
				if n > 2 {
					n--
				}
				reduced = true
				break
			}
		}
		if !reduced {
			if n >= len(keep) {
				break
			}
			n *= 2
			if n > len(keep) {
				n = len(keep)
			}
		}
	}
	return keep
}

var progressFile *os.File
var progressMu sync.Mutex

func progress(format string, a ...any) {
	if progressFile == nil {
		return
	}
	progressMu.Lock()
	fmt.Fprintf(progressFile, format+"\n", a...)
	progressMu.Unlock()
}

func runProp(prop, modeName, tier string, seed uint64, outPath, replayDir, knownPath string, only int, keepOverride []int) int {
	start := time.Now()
	ps := props[prop]
	if ps == nil {
		fmt.Fprintf(os.Stderr, "unknown property %s\n", prop)
		return 3
	}
	if modeName == "" {
		modeName = ps.Mode
	}
	mode := modes[modeName]
	sum := &Summary{Property: prop, Mode: modeName, Tier: tier, Seed: seed, Cov: map[string]int{}}
	known := loadKnown(knownPath)

	type job struct {
		idx  int
		spec *CaseSpec
	}
	jobs := []job{}
	if only < 0 {
		if mode.Corpus != nil {
			for i, c := range mode.Corpus() {
				jobs = append(jobs, job{-1 - i, c})
			}
		}
		n := mode.Count(tier)
		for i := 0; i < n; i++ {
			c := mode.Gen(seed, i, tier)
			if c == nil {
				break
			}
			jobs = append(jobs, job{i, c})
		}
	} else {
		c := caseFor(mode, seed, only, tier)
		if c == nil {
			return 3
		}
		if only >= 1<<20 {
			jobs = append(jobs, job{-1 - (only - (1 << 20)), c})
		} else {
			jobs = append(jobs, job{only, c})
		}
	}

	workers := 12
	if mode.Serial {
		workers = 1
	}
	var mu sync.Mutex
	var wg sync.WaitGroup
	ch := make(chan job)
	distinct := map[string]bool{}
	shrunk := map[string]int{}
	exit := 0
	for w := 0; w < workers; w++ {
		wg.Add(1)
		go func() {
			defer wg.Done()
			drv, err := StartDriver()
			if err != nil {
				mu.Lock()
				sum.Broken = append(sum.Broken, "cannot start driver: "+err.Error())
				mu.Unlock()
				for range ch {
				}
				return
			}
			defer drv.Close()
			for j := range ch {
				progress("start %d", j.idx)
				func() {
					defer progress("done %d", j.idx)
					keep := allKeep(j.spec.N)
					if keepOverride != nil {
						keep = keepOverride
					}
					if keepOverride == nil && confirmedHangs.Load()+lockWedges.Load() >= 3 {
						// three cases have already ended in a hang that showed again under the long
						// limits (or with goroutines parked on a mutex): the violation is established,
						// and every further case would cost its limits again
						mu.Lock()
						sum.Cov["skipped.after-three-confirmed-hangs"]++
						mu.Unlock()
						return
					}
					wedgesBefore := lockWedges.Load()
					firedBefore := wdFired.Load()
					t, err := j.spec.Run(keep)
					if err != nil {
						mu.Lock()
						sum.Broken = append(sum.Broken, fmt.Sprintf("case %s: %v", j.spec.Name, err))
						mu.Unlock()
						return
					}
					v, err := drv.Check(t)
					if err != nil {
						mu.Lock()
						sum.Broken = append(sum.Broken, fmt.Sprintf("case %s: %v", j.spec.Name, err))
						mu.Unlock()
						drv, _ = StartDriver()
						return
					}
					diffs, mons := relevant(ps, v)
					expired := watchdogExpired(t) || wdFired.Load() > firedBefore
					if (len(diffs) > 0 || len(mons) > 0) && expired && lockWedges.Load() > wedgesBefore {
						// goroutines of the code under test were found parked on a mutex for seconds
						// while this case ran: a deadlock, which need not show again when run alone
						mu.Lock()
						sum.Cov["watchdog.expired-with-goroutines-parked-on-a-mutex"]++
						mu.Unlock()
					} else if (len(diffs) > 0 || len(mons) > 0) && expired && confirmedHangs.Load() < 3 {
						// a wall-clock limit expired: execute the case again with every limit
						// multiplied; only a complaint that shows again is reported
						wdSlow.Add(1)
						firedMid := wdFired.Load()
						t2, err2 := j.spec.Run(keep)
						wdSlow.Add(-1)
						if err2 == nil {
							if v2, err3 := drv.Check(t2); err3 == nil {
								d2, m2 := relevant(ps, v2)
								if len(d2) == 0 && len(m2) == 0 {
									mu.Lock()
									sum.Cov["watchdog.expired-under-load-not-reproduced"]++
									mu.Unlock()
									t, v, diffs, mons = t2, v2, d2, m2
								} else {
									t, v, diffs, mons = t2, v2, d2, m2
									if watchdogExpired(t2) || wdFired.Load() > firedMid {
										confirmedHangs.Add(1)
									}
								}
							} else {
								drv, _ = StartDriver()
							}
						}
					}
					mu.Lock()
					sum.Cases++
					sum.Steps += len(keep)
					sum.Lines += len(t.Lines)
					for k, n := range v.Cov {
						sum.Cov[k] += n
					}
					h := strings.Join(inputLines(t), "\n")
					if len(keep) > 1 || mode.Atomic {
						distinct[h] = true
					}
					if len(sum.Samples) < 3 && (len(keep) > 3 || mode.Atomic) {
						sum.Samples = append(sum.Samples, strings.Join(firstN(inputLines(t), 12), " ;; "))
					}
					mu.Unlock()
					if len(v.Others) > 0 {
						mu.Lock()
						sum.Broken = append(sum.Broken, fmt.Sprintf("case %s: driver said %q", j.spec.Name, v.Others[0]))
						mu.Unlock()
					}
					if len(diffs) == 0 && len(mons) == 0 {
						return
					}
					// shrink, preserving the first relevant complaint's identity
					kind, lines := "diff", diffs
					if len(mons) > 0 {
						kind, lines = "monitor", mons
					}
					sig := signature(prop, lines)
					mu.Lock()
					shrunk[sig]++
					doShrink := shrunk[sig] <= 2
					mu.Unlock()
					if keepOverride == nil && doShrink && !mode.Atomic && !j.spec.Atomic {
						pred := func(k []int) bool {
							t2, err := j.spec.Run(k)
							if err != nil {
								return false
							}
							v2, err := drv.Check(t2)
							if err != nil {
								drv, _ = StartDriver()
								return false
							}
							d2, m2 := relevant(ps, v2)
							if kind == "monitor" {
								return len(m2) > 0 && signature(prop, m2) == sig
							}
							return len(m2) == 0 && len(d2) > 0 && signature(prop, d2) == sig
						}
						keep2 := ddmin(keep, pred, 200)
						t2, _ := j.spec.Run(keep2)
						if t2 != nil {
							if v2, err := drv.Check(t2); err == nil {
								d2, m2 := relevant(ps, v2)
								l2 := d2
								if kind == "monitor" {
									l2 = m2
								}
								// keep the shrunk trace only if it still shows the complaint; otherwise the
								// original failing trace is what gets reported (a failure that does not
								// reproduce on re-execution is timing dependent)
								if len(l2) > 0 {
									keep, t, v, lines = keep2, t2, v2, l2
								} else {
									lines = append(lines, "(not reproduced when the case was executed again: timing dependent)")
								}
							}
						}
					}
					caseNo := j.idx
					if caseNo < 0 {
						caseNo = (1 << 20) + (-1 - j.idx)
					}
					rp := writeReplay(replayDir, prop, modeName, seed, caseNo, tier, keep, t, v, "")
					fd := &Finding{Case: j.spec.Name, Kind: kind, Lines: lines, Replay: rp, Signature: sig}
					if _, ok := known[sig]; ok && kind == "monitor" {
						fd.Known = true
					}
					mu.Lock()
					sum.Findings = append(sum.Findings, fd)
					mu.Unlock()
				}()
			}
		}()
	}
	for _, j := range jobs {
		ch <- j
	}
	close(ch)
	wg.Wait()

	sum.Distinct = len(distinct)
	for _, req := range mode.Required {
		if sum.Cov[req] == 0 && only < 0 {
			sum.Broken = append(sum.Broken, "required branch never reached: "+req)
		}
	}
	sort.Slice(sum.Findings, func(i, j int) bool { return sum.Findings[i].Case < sum.Findings[j].Case })
	sum.WallS = time.Since(start).Seconds()

	// report
	seenKnown := map[string]bool{}
	seenSig := map[string]bool{}
	monitorViolation := false
	for _, f := range sum.Findings {
		if f.Known {
			if !seenKnown[f.Signature] {
				seenKnown[f.Signature] = true
				fmt.Printf("KNOWN-FINDING: property=%s %s (replay %s)\n", prop, f.Signature, f.Replay)
			}
			continue
		}
		if f.Kind == "monitor" {
			monitorViolation = true
		}
	}
	for _, f := range sum.Findings {
		if f.Known || seenSig[f.Signature] {
			continue
		}
		if f.Kind == "monitor" {
			seenSig[f.Signature] = true
			fmt.Printf("VIOLATION property=%s replay=%s\n", prop, f.Replay)
			fmt.Printf("  %s\n", strings.Join(f.Lines, "\n  "))
			exit = 1
		}
	}
	if !monitorViolation {
		for _, f := range sum.Findings {
			if f.Known || seenSig[f.Signature] || f.Kind != "diff" {
				continue
			}
			seenSig[f.Signature] = true
			// model and implementation disagree but the property's monitor passed on every
			// explored case: the property is no longer shown to hold.
			fmt.Printf("VIOLATION property=%s replay=%s no-failing-input-found\n", prop, f.Replay)
			fmt.Printf("  correspondence %s no longer checks: %s\n", f.Signature, strings.Join(f.Lines, "\n  "))
			exit = 1
		}
	}
	if len(sum.Broken) > 0 && exit == 0 {
		for _, b := range sum.Broken {
			fmt.Printf("BROKEN property=%s %s\n", prop, b)
		}
		exit = 3 // not 2: a Go panic exits with 2
	}
	if outPath != "" {
		b, _ := json.MarshalIndent(sum, "", " ")
		os.WriteFile(outPath, b, 0o644)
	}
	fmt.Printf("harness property=%s mode=%s tier=%s seed=%d cases=%d steps=%d findings=%d wall=%.1fs\n", prop, modeName, tier, seed, sum.Cases, sum.Steps, len(sum.Findings), sum.WallS)
	return exit
}

func caseFor(mode *Mode, seed uint64, idx int, tier string) *CaseSpec {
	if idx >= 1<<20 {
		cs := mode.Corpus()
		if idx-(1<<20) < len(cs) {
			return cs[idx-(1<<20)]
		}
		return nil
	}
	return mode.Gen(seed, idx, tier)
}

// supervise runs the work in a child process, so that a panic inside the code under test
// (which kills the process) is observed, attributed to a case and reported.
func supervise(prop, tier string, seed uint64, outPath, replayDir, knownPath string) int {
	ps := props[prop]
	if ps == nil {
		fmt.Fprintf(os.Stderr, "unknown property %s\n", prop)
		return 2
	}
	modesToRun := append([]string{ps.Mode}, ps.Extra...)
	worst := 0
	var merged *Summary
	for i, m := range modesToRun {
		out := outPath
		if i > 0 && outPath != "" {
			out = fmt.Sprintf("%s.%s", outPath, m)
		}
		code := superviseMode(prop, m, tier, seed, out, replayDir, knownPath)
		if code == 1 || (code == 2 && worst == 0) {
			worst = code
		}
		if out != "" {
			if b, err := os.ReadFile(out); err == nil {
				var s Summary
				if json.Unmarshal(b, &s) == nil {
					if merged == nil {
						merged = &s
					} else {
						merged.Cases += s.Cases
						merged.Distinct += s.Distinct
						merged.Steps += s.Steps
						merged.Lines += s.Lines
						merged.WallS += s.WallS
						merged.Findings = append(merged.Findings, s.Findings...)
						merged.Broken = append(merged.Broken, s.Broken...)
						merged.Samples = append(merged.Samples, s.Samples...)
						for k, v := range s.Cov {
							merged.Cov[k] += v
						}
						merged.Mode += "+" + s.Mode
					}
				}
				if i > 0 {
					os.Remove(out)
				}
			}
		}
	}
	if merged != nil && outPath != "" {
		bb, _ := json.MarshalIndent(merged, "", " ")
		os.WriteFile(outPath, bb, 0o644)
	}
	return worst
}

func superviseMode(prop, modeName, tier string, seed uint64, outPath, replayDir, knownPath string) int {
	self, _ := os.Executable()
	prog, _ := os.CreateTemp("", "verif-progress-*")
	prog.Close()
	defer os.Remove(prog.Name())
	args := []string{"work", "-prop", prop, "-mode", modeName, "-tier", tier, "-seed", fmt.Sprint(seed), "-out", outPath, "-replays", replayDir, "-known", knownPath, "-progress", prog.Name()}
	cmd := exec.Command(self, args...)
	cmd.Stdout = os.Stdout
	// under the race detector the process stops at the first race, so that the cases in flight
	// at that moment are known (the default is to go on and exit with 66 at the end)
	cmd.Env = append(os.Environ(), "GORACE=halt_on_error=1")
	err := cmd.Run()
	code := 0
	if err != nil {
		code = -1
		if ee, ok := err.(*exec.ExitError); ok {
			code = ee.ExitCode()
		}
	}
	if code == 0 || code == 1 || code == 3 {
		if _, e := os.Stat(outPath); e == nil || outPath == "" {
			if code == 3 {
				return 2
			}
			return code
		}
	}
	// the worker died: find the cases that were in flight
	started, done := map[int]bool{}, map[int]bool{}
	b, _ := os.ReadFile(prog.Name())
	for _, l := range strings.Split(string(b), "\n") {
		var k string
		var i int
		if n, _ := fmt.Sscanf(l, "%s %d", &k, &i); n == 2 {
			if k == "start" {
				started[i] = true
			} else {
				done[i] = true
			}
		}
	}
	cands := []int{}
	for i := range started {
		if !done[i] {
			cands = append(cands, i)
		}
	}
	sort.Ints(cands)
	os.MkdirAll(replayDir, 0o755)
	found := ""
	for _, i := range cands {
		idx := i
		if idx < 0 {
			idx = (1 << 20) + (-1 - idx)
		}
		// a schedule-dependent death (a data race, a panic that needs an interleaving) may need
		// more than one attempt to show again
		cc := 0
		report := ""
		for attempt := 0; attempt < 3; attempt++ {
			c := exec.Command(self, "work", "-prop", prop, "-mode", modeName, "-tier", tier, "-seed", fmt.Sprint(seed), "-only", fmt.Sprint(idx), "-replays", os.TempDir(), "-known", knownPath)
			c.Env = append(os.Environ(), "GORACE=halt_on_error=1")
			var eb bytes.Buffer
			c.Stderr = &eb
			e := c.Run()
			cc = 0
			if e != nil {
				cc = -1
				if ee, ok := e.(*exec.ExitError); ok {
					cc = ee.ExitCode()
				}
			}
			if cc != 0 && cc != 1 && cc != 3 {
				report = eb.String()
				break
			}
		}
		if cc != 0 && cc != 1 && cc != 3 {
			found = filepath.Join(replayDir, fmt.Sprintf("%s-crash-%d-%d.trace", prop, seed, idx))
			d, _ := exec.Command(self, "dump", "-prop", prop, "-mode", modeName, "-tier", tier, "-seed", fmt.Sprint(seed), "-only", fmt.Sprint(idx)).Output()
			hdr := fmt.Sprintf("# replay prop=%s mode=%s seed=%d case=%d tier=%s keep=\n# the process running the code under test died (exit %d; a panic, or a data race under the race detector) while executing this case alone\n", prop, modeName, seed, idx, tier, cc)
			if len(report) > 6000 {
				report = report[:6000]
			}
			for _, l := range strings.Split(strings.TrimSpace(report), "\n") {
				hdr += "# | " + l + "\n"
			}
			os.WriteFile(found, append([]byte(hdr), d...), 0o644)
			break
		}
	}
	sum := &Summary{Property: prop, Mode: modeName, Tier: tier, Seed: seed, Cov: map[string]int{}}
	if found != "" {
		fmt.Printf("VIOLATION property=%s replay=%s\n  the implementation crashed (the process died: panic, or data race under -race) on this case\n", prop, found)
		sum.Findings = []*Finding{{Case: "crash", Kind: "monitor", Lines: []string{"process died"}, Replay: found, Signature: prop + "/crash"}}
	} else {
		found = filepath.Join(replayDir, fmt.Sprintf("%s-crash-%d.txt", prop, seed))
		os.WriteFile(found, []byte(fmt.Sprintf("worker exited with %d; cases in flight: %v; none of them crashed when run alone\n", code, cands)), 0o644)
		fmt.Printf("VIOLATION property=%s replay=%s no-failing-input-found\n  the process running the code under test died (exit %d) and no single case reproduces it\n", prop, found, code)
		sum.Findings = []*Finding{{Case: "crash", Kind: "diff", Lines: []string{"process died"}, Replay: found, Signature: prop + "/crash"}}
	}
	sum.Cases, sum.Distinct = len(started), len(started)
	sum.Samples = []string{"(worker died)"}
	if outPath != "" {
		bb, _ := json.MarshalIndent(sum, "", " ")
		os.WriteFile(outPath, bb, 0o644)
	}
	return 1
}

func inputLines(t *Trace) []string {
	out := []string{}
	for _, l := range t.Lines {
		if strings.HasPrefix(l, "obs.") || strings.HasPrefix(l, "begin") || l == "end" {
			continue
		}
		out = append(out, l)
	}
	return out
}

func firstN(l []string, n int) []string {
	if len(l) > n {
		return l[:n]
	}
	return l
}

func quietLogs() {
	// the server logs through glog: keep it off the disk and off our output
	flag.Set("logtostderr", "true")
	if os.Getenv("VERIF_DEBUG") == "" {
		if f, err := os.OpenFile(os.DevNull, os.O_WRONLY, 0); err == nil {
			syscall.Dup2(int(f.Fd()), 2)
		}
	}
}

func main() {
	quietLogs()
	if len(os.Args) < 2 {
		fmt.Fprintln(os.Stderr, "usage: verifharness run|replay ...")
		os.Exit(2)
	}
	switch os.Args[1] {
	case "run", "work":
		fs := flag.NewFlagSet("run", flag.ExitOnError)
		prop := fs.String("prop", "", "property id")
		tier := fs.String("tier", "quick", "quick|thorough")
		seed := fs.Uint64("seed", 1, "seed")
		out := fs.String("out", "", "summary json")
		rdir := fs.String("replays", "/verif/replays", "replay dir")
		known := fs.String("known", "/verif/KNOWN_FINDINGS.txt", "known findings file")
		only := fs.Int("only", -1, "run one case only")
		prog := fs.String("progress", "", "progress file")
		modeFlag := fs.String("mode", "", "mode override")
		fs.Parse(os.Args[2:])
		if os.Args[1] == "work" {
			if *prog != "" {
				progressFile, _ = os.OpenFile(*prog, os.O_CREATE|os.O_WRONLY|os.O_APPEND, 0o644)
			}
			os.Exit(runProp(*prop, *modeFlag, *tier, *seed, *out, *rdir, *known, *only, nil))
		}
		os.Exit(supervise(*prop, *tier, *seed, *out, *rdir, *known))
	case "cpleader":
		var lead int
		fmt.Sscan(os.Args[2], &lead)
		for _, l := range cpLeaderBody(lead).Lines {
			fmt.Println(l)
		}
		os.Exit(0)
	case "cpperm":
		// one permutation of the compliance suite, in this fresh process; the trace goes to stdout
		var seed uint64
		var idx int
		fmt.Sscan(os.Args[2], &seed)
		fmt.Sscan(os.Args[3], &idx)
		c := cpPermBody(seed, idx)
		t, _ := c.Run([]int{0})
		if t != nil {
			for _, l := range t.Lines {
				fmt.Println(l)
			}
		}
		os.Exit(0)
	case "dump":
		fs := flag.NewFlagSet("dump", flag.ExitOnError)
		prop := fs.String("prop", "", "property id")
		tier := fs.String("tier", "quick", "quick|thorough")
		seed := fs.Uint64("seed", 1, "seed")
		only := fs.Int("only", 0, "case")
		modeFlag := fs.String("mode", "", "mode override")
		full := fs.Bool("trace", false, "execute the case and print its whole trace")
		fs.Parse(os.Args[2:])
		ps := props[*prop]
		if ps == nil {
			os.Exit(2)
		}
		mn := ps.Mode
		if *modeFlag != "" {
			mn = *modeFlag
		}
		c := caseFor(modes[mn], *seed, *only, *tier)
		if c != nil && *full {
			quietLogs()
			keep := make([]int, c.N)
			for i := range keep {
				keep[i] = i
			}
			t, err := c.Run(keep)
			if t != nil {
				for _, l := range t.Lines {
					fmt.Println(l)
				}
			}
			if err != nil {
				fmt.Println("# error:", err)
			}
			os.Exit(0)
		}
		if c != nil && c.Inputs != nil {
			for _, l := range c.Inputs() {
				fmt.Println(l)
			}
		}
		os.Exit(0)
	case "replay":
		if len(os.Args) < 3 {
			os.Exit(2)
		}
		b, err := os.ReadFile(os.Args[2])
		if err != nil {
			fmt.Fprintln(os.Stderr, err)
			os.Exit(2)
		}
		hdr := strings.SplitN(string(b), "\n", 2)[0]
		var seed uint64
		var idx int
		fmt.Sscan(field(hdr, "seed"), &seed)
		fmt.Sscan(field(hdr, "case"), &idx)
		keep := []int{}
		if ks := field(hdr, "keep"); ks != "" {
			for _, k := range strings.Split(ks, ",") {
				var x int
				fmt.Sscan(k, &x)
				keep = append(keep, x)
			}
		}
		os.Exit(runProp(field(hdr, "prop"), field(hdr, "mode"), field(hdr, "tier"), seed, "", os.TempDir(), "/verif/KNOWN_FINDINGS.txt", idx, keep))
	default:
		fmt.Fprintln(os.Stderr, "unknown command")
		os.Exit(2)
	}
}
