package main

// Model-level description of AFT operations and entries, derived from the protobufs
// (this derivation is the glue between the Go types and the Lean model's types), and
// the pools the generators draw from.

import (
	"fmt"
	"math/rand/v2"
	"sort"

	aftpb "github.com/openconfig/gribi/v1/proto/gribi_aft"
	enums "github.com/openconfig/gribi/v1/proto/gribi_aft/enums"
	spb "github.com/openconfig/gribi/v1/proto/service"
	wpb "github.com/openconfig/ygot/proto/ywrapper"
	"google.golang.org/protobuf/proto"
)

type MKey struct {
	Kind string // v4 v6 mpls nhg nh
	Str  string
	Num  uint64
}

func (k MKey) Enc() string {
	switch k.Kind {
	case "v4", "v6":
		return k.Kind + ":" + S(k.Str)
	default:
		return fmt.Sprintf("%s:%d", k.Kind, k.Num)
	}
}

type MPayload struct {
	Grp    uint64
	GrpNI  string
	NHs    []uint64
	Backup uint64
	Body   string
}

func (p MPayload) Enc() string {
	return fmt.Sprintf("%d %s %s %d %s", p.Grp, S(p.GrpNI), L(p.NHs), p.Backup, S(p.Body))
}

type MOp struct {
	ID   uint64
	Ty   string // add replace delete invalid
	NI   string
	Key  MKey
	PL   MPayload
	Cls  string // wf bad noEntry
	Elec *spb.Uint128
}

func encElec(e *spb.Uint128) string {
	if e == nil {
		return "-"
	}
	return fmt.Sprintf("%d:%d", e.High, e.Low)
}

func (o MOp) Enc() string {
	return fmt.Sprintf("%d %s %s %s %s %s %s", o.ID, o.Ty, S(o.NI), o.Key.Enc(), o.Cls, o.PL.Enc(), encElec(o.Elec))
}

func opTy(t spb.AFTOperation_Operation) string {
	switch t {
	case spb.AFTOperation_ADD:
		return "add"
	case spb.AFTOperation_REPLACE:
		return "replace"
	case spb.AFTOperation_DELETE:
		return "delete"
	}
	return "invalid"
}

type topLevel interface {
	GetNextHopGroup() *wpb.UintValue
	GetNextHopGroupNetworkInstance() *wpb.StringValue
}

func topPayload(e topLevel, body proto.Message) MPayload {
	return MPayload{Grp: e.GetNextHopGroup().GetValue(), GrpNI: e.GetNextHopGroupNetworkInstance().GetValue(), Body: Body(body)}
}

func nhgPayload(g *aftpb.Afts_NextHopGroup) MPayload {
	p := MPayload{Backup: g.GetBackupNextHopGroup().GetValue(), Body: Body(g)}
	for _, n := range g.GetNextHop() {
		p.NHs = append(p.NHs, n.GetIndex())
	}
	return p
}

// Describe derives the model-level description of an operation from its protobuf.
// cls is the validity class the generator asserts for it ("" = derive: wf unless the
// entry or its key message is missing).
func Describe(op *spb.AFTOperation, cls string) MOp {
	m := MOp{ID: op.GetId(), Ty: opTy(op.GetOp()), NI: op.GetNetworkInstance(), Cls: "wf", Elec: op.GetElectionId(), Key: MKey{Kind: "nh"}}
	m.PL.Body = Body(nil)
	switch t := op.GetEntry().(type) {
	case nil:
		m.Cls = "noEntry"
	case *spb.AFTOperation_Ipv4:
		m.Key = MKey{Kind: "v4", Str: t.Ipv4.GetPrefix()}
		if t.Ipv4 == nil {
			m.Cls = "bad"
		} else if t.Ipv4.Ipv4Entry != nil {
			m.PL = topPayload(t.Ipv4.Ipv4Entry, t.Ipv4.Ipv4Entry)
		}
	case *spb.AFTOperation_Ipv6:
		m.Key = MKey{Kind: "v6", Str: t.Ipv6.GetPrefix()}
		if t.Ipv6 == nil {
			m.Cls = "bad"
		} else if t.Ipv6.Ipv6Entry != nil {
			m.PL = topPayload(t.Ipv6.Ipv6Entry, t.Ipv6.Ipv6Entry)
		}
	case *spb.AFTOperation_Mpls:
		m.Key = MKey{Kind: "mpls", Num: t.Mpls.GetLabelUint64()}
		if t.Mpls == nil {
			m.Cls = "bad"
		} else {
			if _, ok := t.Mpls.GetLabel().(*aftpb.Afts_LabelEntryKey_LabelUint64); !ok {
				m.Cls = "bad"
			}
			if t.Mpls.LabelEntry != nil {
				m.PL = topPayload(t.Mpls.LabelEntry, t.Mpls.LabelEntry)
			}
		}
	case *spb.AFTOperation_NextHopGroup:
		m.Key = MKey{Kind: "nhg", Num: t.NextHopGroup.GetId()}
		if t.NextHopGroup == nil {
			m.Cls = "bad"
		} else if t.NextHopGroup.NextHopGroup != nil {
			m.PL = nhgPayload(t.NextHopGroup.NextHopGroup)
		}
	case *spb.AFTOperation_NextHop:
		m.Key = MKey{Kind: "nh", Num: t.NextHop.GetIndex()}
		if t.NextHop == nil {
			m.Cls = "bad"
		} else if t.NextHop.NextHop != nil {
			m.PL = MPayload{Body: Body(t.NextHop.NextHop)}
		}
	default:
		m.Cls = "noEntry"
	}
	if cls != "" {
		m.Cls = cls
	}
	return m
}

// ---- pools ----

type Pools struct {
	NIs    []string // first is the default
	V4     []string
	V6     []string
	Labels []uint64
	NHGs   []uint64
	NHs    []uint64
	// Rich selects the wide payload variants (every fluent field).
	Rich bool
	// Known are the instances that exist at this point of the generation (steers choices).
	Known []string
}

func DefaultPools() *Pools {
	return &Pools{
		NIs: []string{"DEFAULT", "VRF1", "VRF2"},
		V4:  []string{"1.0.0.0/8", "2.2.0.0/16", "3.3.3.0/24", "4.4.4.4/32"},
		// the last two are other spellings (upper-case hex, uncompressed zero groups): a prefix is the string the client sent
		V6:     []string{"2001:db8::/32", "2001:db8:1::/48", "2001:db8:2::/64", "::/0", "2001:DB8:A:0::/64", "2001:db8:0:0:0:0:0:0/40"},
		Labels: []uint64{100, 200, 300, 1048575},
		NHGs:   []uint64{1, 2, 3, 4},
		NHs:    []uint64{1, 2, 3, 4},
	}
}

func sv(s string) *wpb.StringValue { return &wpb.StringValue{Value: s} }
func uv(u uint64) *wpb.UintValue   { return &wpb.UintValue{Value: u} }

const (
	hdrIPV4  = enums.OpenconfigAftTypesEncapsulationHeaderType_OPENCONFIGAFTTYPESENCAPSULATIONHEADERTYPE_IPV4
	hdrMPLS  = enums.OpenconfigAftTypesEncapsulationHeaderType_OPENCONFIGAFTTYPESENCAPSULATIONHEADERTYPE_MPLS
	hdrUDPV6 = enums.OpenconfigAftTypesEncapsulationHeaderType_OPENCONFIGAFTTYPESENCAPSULATIONHEADERTYPE_UDPV6
)

// NumNHVariants is the number of next-hop payload variants.
const NumNHVariants = 17

// NHVariant returns the i-th next-hop payload: together they use every field the fluent
// next-hop builder can set.
func NHVariant(i int, nis []string) *aftpb.Afts_NextHop {
	otherNI := nis[len(nis)-1]
	switch i % NumNHVariants {
	case 0:
		return &aftpb.Afts_NextHop{IpAddress: sv("10.0.0.1")}
	case 1:
		return &aftpb.Afts_NextHop{IpAddress: sv("10.0.0.2"), MacAddress: sv("00:1a:11:00:00:01")}
	case 2:
		return &aftpb.Afts_NextHop{InterfaceRef: &aftpb.Afts_NextHop_InterfaceRef{Interface: sv("eth0")}}
	case 3:
		return &aftpb.Afts_NextHop{IpAddress: sv("2001:db8::1"), InterfaceRef: &aftpb.Afts_NextHop_InterfaceRef{Interface: sv("eth1"), Subinterface: uv(3)}}
	case 4:
		return &aftpb.Afts_NextHop{IpInIp: &aftpb.Afts_NextHop_IpInIp{SrcIp: sv("192.0.2.1"), DstIp: sv("192.0.2.2")}, EncapsulateHeader: hdrIPV4}
	case 5:
		return &aftpb.Afts_NextHop{DecapsulateHeader: hdrIPV4, NetworkInstance: sv(otherNI)}
	case 6:
		return &aftpb.Afts_NextHop{IpAddress: sv("10.0.0.3"), PushedMplsLabelStack: []*aftpb.Afts_NextHop_PushedMplsLabelStackUnion{{PushedMplsLabelStackUint64: 300}, {PushedMplsLabelStackUint64: 200}, {PushedMplsLabelStackUint64: 300}}}
	case 7:
		return &aftpb.Afts_NextHop{PopTopLabel: &wpb.BoolValue{Value: true}, IpAddress: sv("10.0.0.4")}
	case 8:
		return &aftpb.Afts_NextHop{EncapHeader: []*aftpb.Afts_NextHop_EncapHeaderKey{
			{Index: 1, EncapHeader: &aftpb.Afts_NextHop_EncapHeader{Type: hdrMPLS, Mpls: &aftpb.Afts_NextHop_EncapHeader_Mpls{MplsLabelStack: []*aftpb.Afts_NextHop_EncapHeader_Mpls_MplsLabelStackUnion{{MplsLabelStackUint64: 100}, {MplsLabelStackUint64: 42}}}}},
			{Index: 2, EncapHeader: &aftpb.Afts_NextHop_EncapHeader{Type: hdrUDPV6, UdpV6: &aftpb.Afts_NextHop_EncapHeader_UdpV6{Dscp: uv(26), DstIp: sv("2001:db8::2"), DstUdpPort: uv(6635), IpTtl: uv(64), SrcIp: sv("2001:db8::3"), SrcUdpPort: uv(49152)}}},
		}}
	case 9:
		return &aftpb.Afts_NextHop{EncapHeader: []*aftpb.Afts_NextHop_EncapHeaderKey{
			{Index: 1, EncapHeader: &aftpb.Afts_NextHop_EncapHeader{Type: hdrUDPV6, UdpV6: &aftpb.Afts_NextHop_EncapHeader_UdpV6{DstIp: sv("2001:db8::9"), SrcIp: sv("2001:db8::a")}}},
		}, IpAddress: sv("10.0.0.9")}
	case 10:
		return &aftpb.Afts_NextHop{DecapsulateHeader: hdrMPLS, EncapsulateHeader: hdrUDPV6, IpAddress: sv("10.0.0.10")}
	case 11:
		return &aftpb.Afts_NextHop{MacAddress: sv("02:00:00:00:00:0b"), InterfaceRef: &aftpb.Afts_NextHop_InterfaceRef{Interface: sv("Ethernet1/1"), Subinterface: uv(0)}}
	case 12:
		return &aftpb.Afts_NextHop{NetworkInstance: sv(nis[0]), IpAddress: sv("10.0.0.12")}
	case 13:
		return &aftpb.Afts_NextHop{PushedMplsLabelStack: []*aftpb.Afts_NextHop_PushedMplsLabelStackUnion{{PushedMplsLabelStackUint64: 16}}, PopTopLabel: &wpb.BoolValue{Value: true}}
	case 14:
		return &aftpb.Afts_NextHop{IpInIp: &aftpb.Afts_NextHop_IpInIp{SrcIp: sv("198.51.100.1"), DstIp: sv("198.51.100.2")}, DecapsulateHeader: hdrUDPV6, NetworkInstance: sv(otherNI), IpAddress: sv("10.0.0.14")}
	case 15:
		// the wrapper is there and says false: present, and different from absent
		return &aftpb.Afts_NextHop{PopTopLabel: &wpb.BoolValue{Value: false}, IpAddress: sv("10.0.0.15")}
	default:
		return &aftpb.Afts_NextHop{}
	}
}

// narrowNH are the variants used where payload fidelity is not the subject.
var narrowNH = []int{0, 1, 2, 4, 6}

func (p *Pools) pick(r *rand.Rand, l []string) string  { return l[r.IntN(len(l))] }
func (p *Pools) pickU(r *rand.Rand, l []uint64) uint64 { return l[r.IntN(len(l))] }

// GenEntry fills op.Entry with a random valid entry of the given kind; kind "" = random.
func (p *Pools) GenEntry(r *rand.Rand, op *spb.AFTOperation, kind string) {
	if kind == "" {
		kind = []string{"v4", "v6", "mpls", "nhg", "nhg", "nhg", "nh", "nh", "nh", "v4"}[r.IntN(10)]
	}
	meta := func() *wpb.BytesValue {
		switch r.IntN(5) {
		case 0:
			return nil
		case 1:
			return &wpb.BytesValue{Value: []byte{}}
		case 2:
			return &wpb.BytesValue{Value: []byte{0xff, 0xfe, 0x00, 0x80}}
		default:
			return &wpb.BytesValue{Value: []byte{byte(r.IntN(3)), 'm'}}
		}
	}
	grpNI := func() *wpb.StringValue {
		switch r.IntN(4) {
		case 0, 1:
			if r.IntN(6) == 0 {
				// the other spelling of "the entry's own instance": the wrapper is there, its value empty
				return sv("")
			}
			return nil
		default:
			if len(p.Known) > 0 && r.IntN(8) != 0 {
				return sv(p.pick(r, p.Known))
			}
			return sv(p.pick(r, p.NIs))
		}
	}
	switch kind {
	case "v4":
		e := &aftpb.Afts_Ipv4Entry{NextHopGroup: uv(p.pickU(r, p.NHGs)), NextHopGroupNetworkInstance: grpNI(), EntryMetadata: meta()}
		if p.Rich && r.IntN(3) == 0 {
			e.DecapsulateHeader = []enums.OpenconfigAftTypesEncapsulationHeaderType{hdrIPV4, hdrMPLS, hdrUDPV6}[r.IntN(3)]
		}
		op.Entry = &spb.AFTOperation_Ipv4{Ipv4: &aftpb.Afts_Ipv4EntryKey{Prefix: p.pick(r, p.V4), Ipv4Entry: e}}
	case "v6":
		e := &aftpb.Afts_Ipv6Entry{NextHopGroup: uv(p.pickU(r, p.NHGs)), NextHopGroupNetworkInstance: grpNI(), EntryMetadata: meta()}
		if p.Rich && r.IntN(3) == 0 {
			e.DecapsulateHeader = []enums.OpenconfigAftTypesEncapsulationHeaderType{hdrIPV4, hdrMPLS, hdrUDPV6}[r.IntN(3)]
		}
		op.Entry = &spb.AFTOperation_Ipv6{Ipv6: &aftpb.Afts_Ipv6EntryKey{Prefix: p.pick(r, p.V6), Ipv6Entry: e}}
	case "mpls":
		e := &aftpb.Afts_LabelEntry{NextHopGroup: uv(p.pickU(r, p.NHGs)), NextHopGroupNetworkInstance: grpNI(), EntryMetadata: meta()}
		if r.IntN(3) == 0 {
			for i := 0; i <= r.IntN(3); i++ {
				e.PoppedMplsLabelStack = append(e.PoppedMplsLabelStack, &aftpb.Afts_LabelEntry_PoppedMplsLabelStackUnion{PoppedMplsLabelStackUint64: uint64(100 + 50*r.IntN(3))})
			}
		}
		op.Entry = &spb.AFTOperation_Mpls{Mpls: &aftpb.Afts_LabelEntryKey{Label: &aftpb.Afts_LabelEntryKey_LabelUint64{LabelUint64: p.pickU(r, p.Labels)}, LabelEntry: e}}
	case "nhg":
		g := &aftpb.Afts_NextHopGroup{}
		set := map[uint64]bool{}
		for i := 0; i <= r.IntN(3); i++ {
			set[p.pickU(r, p.NHs)] = true
		}
		idx := []uint64{}
		for n := range set {
			idx = append(idx, n)
		}
		sort.Slice(idx, func(i, j int) bool { return idx[i] < idx[j] })
		r.Shuffle(len(idx), func(i, j int) { idx[i], idx[j] = idx[j], idx[i] })
		for _, n := range idx {
			nh := &aftpb.Afts_NextHopGroup_NextHop{}
			if r.IntN(4) != 0 {
				nh.Weight = uv(uint64(1 + r.IntN(3)))
			}
			g.NextHop = append(g.NextHop, &aftpb.Afts_NextHopGroup_NextHopKey{Index: n, NextHop: nh})
		}
		gid := p.pickU(r, p.NHGs)
		if r.IntN(3) == 0 {
			g.BackupNextHopGroup = uv(uint64(1 + r.IntN(6)))
			if r.IntN(4) == 0 {
				// a group that names itself as its backup (nothing forbids it)
				g.BackupNextHopGroup = uv(gid)
			}
		}
		if p.Rich && r.IntN(4) == 0 {
			g.Color = uv(uint64(r.IntN(3)))
		}
		op.Entry = &spb.AFTOperation_NextHopGroup{NextHopGroup: &aftpb.Afts_NextHopGroupKey{Id: gid, NextHopGroup: g}}
	case "nh":
		v := narrowNH[r.IntN(len(narrowNH))]
		if p.Rich {
			v = r.IntN(NumNHVariants)
		}
		op.Entry = &spb.AFTOperation_NextHop{NextHop: &aftpb.Afts_NextHopKey{Index: p.pickU(r, p.NHs), NextHop: NHVariant(v, p.NIs)}}
	}
}

// Strip reduces the payload of op's entry to what an entry must carry (the group reference of a
// top-level entry; one listed next-hop of a group; the address of a next-hop).
func Strip(op *spb.AFTOperation) {
	switch t := op.Entry.(type) {
	case *spb.AFTOperation_Ipv4:
		if e := t.Ipv4.Ipv4Entry; e != nil {
			t.Ipv4.Ipv4Entry = &aftpb.Afts_Ipv4Entry{NextHopGroup: e.NextHopGroup, NextHopGroupNetworkInstance: e.NextHopGroupNetworkInstance}
		}
	case *spb.AFTOperation_Ipv6:
		if e := t.Ipv6.Ipv6Entry; e != nil {
			t.Ipv6.Ipv6Entry = &aftpb.Afts_Ipv6Entry{NextHopGroup: e.NextHopGroup, NextHopGroupNetworkInstance: e.NextHopGroupNetworkInstance}
		}
	case *spb.AFTOperation_Mpls:
		if e := t.Mpls.LabelEntry; e != nil {
			t.Mpls.LabelEntry = &aftpb.Afts_LabelEntry{NextHopGroup: e.NextHopGroup, NextHopGroupNetworkInstance: e.NextHopGroupNetworkInstance}
		}
	case *spb.AFTOperation_NextHopGroup:
		if g := t.NextHopGroup.NextHopGroup; g != nil && len(g.NextHop) > 0 {
			t.NextHopGroup.NextHopGroup = &aftpb.Afts_NextHopGroup{NextHop: g.NextHop[:1]}
		}
	case *spb.AFTOperation_NextHop:
		if t.NextHop.NextHop != nil {
			t.NextHop.NextHop = &aftpb.Afts_NextHop{IpAddress: sv("10.0.0.77")}
		}
	}
}

// KeyOnly returns a copy of op whose entry carries the key only (as a DELETE may).
func KeyOnly(op *spb.AFTOperation) {
	switch t := op.Entry.(type) {
	case *spb.AFTOperation_Ipv4:
		t.Ipv4.Ipv4Entry = nil
	case *spb.AFTOperation_Ipv6:
		t.Ipv6.Ipv6Entry = nil
	case *spb.AFTOperation_Mpls:
		t.Mpls.LabelEntry = nil
	case *spb.AFTOperation_NextHopGroup:
		t.NextHopGroup.NextHopGroup = nil
	case *spb.AFTOperation_NextHop:
		t.NextHop.NextHop = nil
	}
}
