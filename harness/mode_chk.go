package main

// chk assertion helpers (property C17): generated result lists / Get responses / client errors
// and wants, biased to absent items; the real helper runs against a capturing testing.TB.

import (
	"errors"
	"fmt"
	"io"
	"math/rand/v2"
	"runtime"
	"strings"
	"testing"

	"github.com/openconfig/gribigo/chk"
	"github.com/openconfig/gribigo/client"
	"github.com/openconfig/gribigo/constants"
	"github.com/openconfig/gribigo/fluent"
	"google.golang.org/grpc/codes"
	"google.golang.org/grpc/status"

	aftpb "github.com/openconfig/gribi/v1/proto/gribi_aft"
	spb "github.com/openconfig/gribi/v1/proto/service"
)

// capTB is a testing.TB that records a fatal failure instead of ending the process.
type capTB struct {
	testing.TB
	failed bool
	msg    string
}

func (c *capTB) Helper()                   {}
func (c *capTB) Name() string              { return "captured" }
func (c *capTB) Log(a ...any)              {}
func (c *capTB) Logf(f string, a ...any)   {}
func (c *capTB) Cleanup(func())            {}
func (c *capTB) Failed() bool              { return c.failed }
func (c *capTB) Error(a ...any)            { c.failed = true; c.msg = fmt.Sprint(a...) }
func (c *capTB) Errorf(f string, a ...any) { c.failed = true; c.msg = fmt.Sprintf(f, a...) }
func (c *capTB) Fail()                     { c.failed = true }
func (c *capTB) FailNow()                  { c.failed = true; runtime.Goexit() }
func (c *capTB) Fatal(a ...any)            { c.failed = true; c.msg = fmt.Sprint(a...); runtime.Goexit() }
func (c *capTB) Fatalf(f string, a ...any) {
	c.failed = true
	c.msg = fmt.Sprintf(f, a...)
	runtime.Goexit()
}
func (c *capTB) Skip(a ...any)            { runtime.Goexit() }
func (c *capTB) Skipf(f string, a ...any) { runtime.Goexit() }
func (c *capTB) SkipNow()                 { runtime.Goexit() }

// runCap runs f with a capturing TB; it reports whether f passed and whether it panicked.
func runCap(f func(t testing.TB)) (pass bool, panicked string) {
	c := &capTB{}
	done := make(chan struct{})
	go func() {
		defer close(done)
		defer func() {
			if p := recover(); p != nil {
				panicked = fmt.Sprint(p)
			}
		}()
		f(c)
	}()
	<-done
	return !c.failed && panicked == "", panicked
}

func encDetails(d *client.OpDetailsResults) string {
	if d == nil {
		return "-"
	}
	return fmt.Sprintf("%d,%d,%d,%s,%s,%d", int(d.Type), d.NextHopIndex, d.NextHopGroupID, S(d.IPv4Prefix), S(d.IPv6Prefix), d.MPLSLabel)
}

func encOpRes(r *client.OpResult) string {
	el := "-"
	if r.CurrentServerElectionID != nil {
		el = fmt.Sprintf("%d:%d", r.CurrentServerElectionID.High, r.CurrentServerElectionID.Low)
	}
	pa := "-"
	if r.SessionParameters != nil {
		pa = fmt.Sprint(int(r.SessionParameters.Status))
	}
	return fmt.Sprintf("%d %d %s %s %s %s %s", r.OperationID, int(r.ProgrammingResult), el, pa, S(r.ClientError), S(r.ServerError), encDetails(r.Details))
}

var chkV4 = []string{"1.0.0.0/8", "2.0.0.0/8"}
var chkV6 = []string{"2001:db8::/32", "2001:db8:1::/48"}

func genDetails(r *rand.Rand) *client.OpDetailsResults {
	d := &client.OpDetailsResults{Type: []constants.OpType{constants.Add, constants.Replace, constants.Delete}[r.IntN(3)]}
	switch r.IntN(7) {
	case 0:
		d.NextHopIndex = uint64(1 + r.IntN(2))
	case 1:
		d.NextHopGroupID = uint64(1 + r.IntN(2))
	case 2:
		d.IPv4Prefix = chkV4[r.IntN(2)]
	case 3, 4:
		d.IPv6Prefix = chkV6[r.IntN(2)]
	case 5:
		d.MPLSLabel = uint64(100 * (1 + r.IntN(2)))
	default:
		// no key at all
	}
	return d
}

func genOpRes(r *rand.Rand) *client.OpResult {
	o := &client.OpResult{Timestamp: r.Int64N(1000), Latency: r.Int64N(1000), OperationID: uint64(1 + r.IntN(4))}
	o.ProgrammingResult = []spb.AFTResult_Status{spb.AFTResult_FAILED, spb.AFTResult_RIB_PROGRAMMED, spb.AFTResult_FIB_PROGRAMMED}[r.IntN(3)]
	if r.IntN(5) != 0 {
		o.Details = genDetails(r)
	}
	if r.IntN(10) == 0 {
		o.CurrentServerElectionID = &spb.Uint128{Low: uint64(r.IntN(3))}
		o.OperationID = 0
	}
	if r.IntN(12) == 0 {
		o.SessionParameters = &spb.SessionParametersResult{}
	}
	if r.IntN(6) == 0 {
		o.ServerError = []string{"boom", "bang"}[r.IntN(2)]
	}
	if r.IntN(15) == 0 {
		o.ClientError = "cerr"
	}
	return o
}

func cloneRes(o *client.OpResult) *client.OpResult {
	c := *o
	if o.Details != nil {
		d := *o.Details
		c.Details = &d
	}
	return &c
}

func genWant(r *rand.Rand, res []*client.OpResult) *client.OpResult {
	if len(res) > 0 && r.IntN(2) == 0 {
		w := cloneRes(res[r.IntN(len(res))])
		w.Timestamp, w.Latency = 0, 0
		switch r.IntN(6) {
		case 0:
			w.OperationID = uint64(1 + r.IntN(5))
		case 1:
			w.Details = nil
		case 2:
			w.ServerError = ""
		case 3:
			if w.Details != nil {
				w.Details.Type = constants.Delete
			}
		}
		return w
	}
	w := genOpRes(r)
	w.Timestamp, w.Latency = 0, 0
	return w
}

func chkCase(seed uint64, idx int) *CaseSpec {
	name := fmt.Sprintf("chk/%d/%d", seed, idx)
	run := func(keep []int) (*Trace, error) {
		r := rngFor(seed, idx)
		t := &Trace{}
		t.Add("begin %s", name)
		// one GetResponse object is checked again and again within a history, refilled in place
		// (often with as many entries as before): what a checker says is about the response as
		// it is now
		sharedResp := &spb.GetResponse{}
		lastEnts := -1
		for n := 0; n < 12; n++ {
			switch r.IntN(6) {
			case 0: // HasResult
				res := []*client.OpResult{}
				for i := r.IntN(5); i > 0; i-- {
					res = append(res, genOpRes(r))
				}
				w := genWant(r, res)
				ig, sv := r.IntN(2) == 0, r.IntN(3) == 0
				pass, pan := runCap(func(tb testing.TB) { callHasResult(tb, res, w, ig, sv) })
				line := fmt.Sprintf("chk.hasresult %s %s | %s", B(ig), B(sv), encOpRes(w))
				for _, x := range res {
					line += " | " + encOpRes(x)
				}
				t.Add("%s => %s %s", line, B(pass), S(pan))
			case 1, 2: // HasResultsCache
				res := []*client.OpResult{}
				for i := r.IntN(6); i > 0; i-- {
					res = append(res, genOpRes(r))
				}
				wants := []*client.OpResult{}
				for i := 1 + r.IntN(3); i > 0; i-- {
					wants = append(wants, genWant(r, res))
				}
				ig, sv := r.IntN(2) == 0, r.IntN(4) == 0
				pass, pan := runCap(func(tb testing.TB) { callHasResultsCache(tb, res, wants, ig, sv) })
				plain := []uint64{}
				for _, w := range wants {
					w := w
					p, _ := runCap(func(tb testing.TB) { callHasResult(tb, res, w, ig, sv) })
					if p {
						plain = append(plain, 1)
					} else {
						plain = append(plain, 0)
					}
				}
				line := fmt.Sprintf("chk.cache %s %s %d %s", B(ig), B(sv), len(wants), L(plain))
				for _, x := range wants {
					line += " | " + encOpRes(x)
				}
				for _, x := range res {
					line += " | " + encOpRes(x)
				}
				t.Add("%s => %s %s", line, B(pass), S(pan))
			case 3: // GetResponseHasEntries
				type ge struct {
					ni, kind, key string
				}
				mk := func() ge {
					ni := []string{"DEFAULT", "VRF1"}[r.IntN(2)]
					switch r.IntN(5) {
					case 0:
						return ge{ni, "v4", chkV4[r.IntN(2)]}
					case 1:
						return ge{ni, "v6", chkV6[r.IntN(2)]}
					case 2:
						return ge{ni, "mpls", fmt.Sprint(100 * r.IntN(3))}
					case 3:
						return ge{ni, "nhg", fmt.Sprint(r.IntN(3))}
					default:
						return ge{ni, "nh", fmt.Sprint(r.IntN(3))}
					}
				}
				toEntry := func(g ge) *spb.AFTEntry {
					e := &spb.AFTEntry{NetworkInstance: g.ni}
					var n uint64
					fmt.Sscan(g.key, &n)
					switch g.kind {
					case "v4":
						e.Entry = &spb.AFTEntry_Ipv4{Ipv4: &aftpb.Afts_Ipv4EntryKey{Prefix: g.key, Ipv4Entry: &aftpb.Afts_Ipv4Entry{}}}
					case "v6":
						e.Entry = &spb.AFTEntry_Ipv6{Ipv6: &aftpb.Afts_Ipv6EntryKey{Prefix: g.key, Ipv6Entry: &aftpb.Afts_Ipv6Entry{}}}
					case "mpls":
						e.Entry = &spb.AFTEntry_Mpls{Mpls: &aftpb.Afts_LabelEntryKey{Label: &aftpb.Afts_LabelEntryKey_LabelUint64{LabelUint64: n}, LabelEntry: &aftpb.Afts_LabelEntry{}}}
					case "mplsx":
						// a label entry that is not keyed by a number: an enumerated label, or no key at all
						if n == 0 {
							e.Entry = &spb.AFTEntry_Mpls{Mpls: &aftpb.Afts_LabelEntryKey{LabelEntry: &aftpb.Afts_LabelEntry{}}}
						} else {
							e.Entry = &spb.AFTEntry_Mpls{Mpls: &aftpb.Afts_LabelEntryKey{Label: &aftpb.Afts_LabelEntryKey_LabelOpenconfigmplstypesmplslabelenum{LabelOpenconfigmplstypesmplslabelenum: 2}, LabelEntry: &aftpb.Afts_LabelEntry{}}}
						}
					case "nhg":
						e.Entry = &spb.AFTEntry_NextHopGroup{NextHopGroup: &aftpb.Afts_NextHopGroupKey{Id: n, NextHopGroup: &aftpb.Afts_NextHopGroup{}}}
					case "nh":
						e.Entry = &spb.AFTEntry_NextHop{NextHop: &aftpb.Afts_NextHopKey{Index: n, NextHop: &aftpb.Afts_NextHop{}}}
					}
					return e
				}
				toWant := func(g ge) fluent.GRIBIEntry {
					var n uint64
					fmt.Sscan(g.key, &n)
					switch g.kind {
					case "v4":
						return fluent.IPv4Entry().WithNetworkInstance(g.ni).WithPrefix(g.key)
					case "v6":
						return fluent.IPv6Entry().WithNetworkInstance(g.ni).WithPrefix(g.key)
					case "mpls":
						return fluent.LabelEntry().WithNetworkInstance(g.ni).WithLabel(uint32(n))
					case "nhg":
						return fluent.NextHopGroupEntry().WithNetworkInstance(g.ni).WithID(n)
					default:
						return fluent.NextHopEntry().WithNetworkInstance(g.ni).WithIndex(n)
					}
				}
				ents := []ge{}
				nEnts := r.IntN(6)
				reuse := r.IntN(2) == 0
				if reuse && lastEnts >= 0 && r.IntN(2) == 0 {
					nEnts = lastEnts
				}
				for i := nEnts; i > 0; i-- {
					if r.IntN(8) == 0 {
						ents = append(ents, ge{[]string{"DEFAULT", "VRF1"}[r.IntN(2)], "mplsx", fmt.Sprint(r.IntN(2))})
						continue
					}
					ents = append(ents, mk())
				}
				wants := []ge{}
				for i := 1 + r.IntN(3); i > 0; i-- {
					if len(ents) > 0 && r.IntN(2) == 0 {
						w := ents[r.IntN(len(ents))]
						if w.kind == "mplsx" {
							w = ge{w.ni, "mpls", "0"}
						}
						// now and then the entry's key under another entry type (an IPv6 prefix wanted
						// as an IPv4 entry, a group id as a next-hop index or a label, …): absent
						// unless an entry of that type has the key too
						if r.IntN(4) == 0 {
							switch w.kind {
							case "v4":
								w.kind = "v6"
							case "v6":
								w.kind = "v4"
							case "nhg":
								w.kind = []string{"nh", "mpls"}[r.IntN(2)]
							case "nh":
								w.kind = []string{"nhg", "mpls"}[r.IntN(2)]
							case "mpls":
								w.kind = []string{"nhg", "nh"}[r.IntN(2)]
							}
						}
						wants = append(wants, w)
					} else {
						wants = append(wants, mk())
					}
				}
				resp := &spb.GetResponse{}
				if reuse {
					resp = sharedResp
					resp.Entry = resp.Entry[:0]
					lastEnts = len(ents)
				}
				for _, g := range ents {
					resp.Entry = append(resp.Entry, toEntry(g))
				}
				ws := []fluent.GRIBIEntry{}
				for _, g := range wants {
					ws = append(ws, toWant(g))
				}
				pass, pan := runCap(func(tb testing.TB) { chk.GetResponseHasEntries(tb, resp, ws...) })
				line := fmt.Sprintf("chk.get %d", len(wants))
				for _, g := range wants {
					line += fmt.Sprintf(" | %s %s %s", S(g.ni), g.kind, S(g.key))
				}
				for _, g := range ents {
					line += fmt.Sprintf(" | %s %s %s", S(g.ni), g.kind, S(g.key))
				}
				t.Add("%s => %s %s", line, B(pass), S(pan))
			case 4: // HasNSendErrors / HasNRecvErrors
				var err error
				enc := "nil"
				switch r.IntN(4) {
				case 0:
				case 1:
					err = errors.New("some other error")
					enc = "other"
				default:
					ce := &client.ClientErr{}
					ns, nr := r.IntN(3), r.IntN(3)
					for i := 0; i < ns; i++ {
						ce.Send = append(ce.Send, errors.New("send"))
					}
					for i := 0; i < nr; i++ {
						ce.Recv = append(ce.Recv, errors.New("recv"))
					}
					err = ce
					enc = fmt.Sprintf("ce:%d:%d", ns, nr)
				}
				count := r.IntN(3)
				which := []string{"nsend", "nrecv"}[r.IntN(2)]
				pass, pan := runCap(func(tb testing.TB) {
					if which == "nsend" {
						chk.HasNSendErrors(tb, err, count)
					} else {
						chk.HasNRecvErrors(tb, err, count)
					}
				})
				t.Add("chk.%s %s %d => %s %s", which, enc, count, B(pass), S(pan))
			default: // HasRecvClientErrorWithStatus
				cs := []codes.Code{codes.FailedPrecondition, codes.Unimplemented, codes.InvalidArgument, codes.Unknown}
				mkSt := func() *status.Status {
					st := status.New(cs[r.IntN(4)], []string{"", "msg-a", "msg-b", "plain", "EOF"}[r.IntN(5)])
					if r.IntN(2) == 0 {
						st2, e := st.WithDetails(&spb.ModifyRPCErrorDetails{Reason: spb.ModifyRPCErrorDetails_Reason(1 + r.IntN(2))})
						if e == nil {
							st = st2
						}
					}
					return st
				}
				encSt := func(st *status.Status) string {
					det := ""
					for _, d := range st.Details() {
						if md, ok := d.(*spb.ModifyRPCErrorDetails); ok {
							det += fmt.Sprintf("r%d", int(md.Reason))
						}
					}
					return fmt.Sprintf("%d %s %s", int(st.Code()), S(st.Message()), S(det))
				}
				want := mkSt()
				recv := []string{}
				var err error
				enc := "nil"
				switch r.IntN(6) {
				case 0:
				case 1:
					err = errors.New("some other error")
					enc = "other"
				default:
					ce := &client.ClientErr{}
					for i := r.IntN(4); i > 0; i-- {
						switch r.IntN(4) {
						case 0:
							// an error that carries no gRPC status
							if r.IntN(2) == 0 {
								ce.Recv = append(ce.Recv, errors.New("plain"))
							} else {
								ce.Recv = append(ce.Recv, io.EOF)
							}
							recv = append(recv, "-")
						case 1:
							ce.Recv = append(ce.Recv, want.Err())
							recv = append(recv, encSt(want))
						default:
							st := mkSt()
							ce.Recv = append(ce.Recv, st.Err())
							recv = append(recv, encSt(st))
						}
					}
					err = ce
					enc = "ce"
				}
				allow, ign := r.IntN(3) == 0, r.IntN(3) == 0
				pass, pan := runCap(func(tb testing.TB) {
					opts := []chk.ErrorOpt{}
					if allow {
						opts = append(opts, chk.AllowUnimplemented())
					}
					if ign {
						opts = append(opts, chk.IgnoreDetails())
					}
					chk.HasRecvClientErrorWithStatus(tb, err, want, opts...)
				})
				t.Add("chk.status %s %s %s | %s | %s => %s %s", B(allow), B(ign), enc, encSt(want), strings.Join(recv, " | "), B(pass), S(pan))
			}
		}
		t.Add("end")
		return t, nil
	}
	return &CaseSpec{Name: name, N: 1, Run: run, Inputs: func() []string { return []string{name} }}
}

func callHasResult(tb testing.TB, res []*client.OpResult, w *client.OpResult, ig, sv bool) {
	switch {
	case ig && sv:
		chk.HasResult(tb, res, w, chk.IgnoreOperationID(), chk.IncludeServerError())
	case ig:
		chk.HasResult(tb, res, w, chk.IgnoreOperationID())
	case sv:
		chk.HasResult(tb, res, w, chk.IncludeServerError())
	default:
		chk.HasResult(tb, res, w)
	}
}

func callHasResultsCache(tb testing.TB, res, wants []*client.OpResult, ig, sv bool) {
	switch {
	case ig && sv:
		chk.HasResultsCache(tb, res, wants, chk.IgnoreOperationID(), chk.IncludeServerError())
	case ig:
		chk.HasResultsCache(tb, res, wants, chk.IgnoreOperationID())
	case sv:
		chk.HasResultsCache(tb, res, wants, chk.IncludeServerError())
	default:
		chk.HasResultsCache(tb, res, wants)
	}
}

func init() {
	modes["chk"] = &Mode{
		Name: "chk",
		Gen:  func(seed uint64, idx int, tier string) *CaseSpec { return chkCase(seed, idx) },
		Count: func(tier string) int {
			if tier == "thorough" {
				return 5000
			}
			return 500
		},
		Required: []string{"chk.hasresult.pass", "chk.hasresult.fail", "chk.cache.pass", "chk.cache.fail", "chk.get.pass", "chk.get.fail", "chk.status.pass", "chk.status.fail"},
	}
	props["C17"] = &PropSpec{Mode: "chk", Diffs: []string{"chk."}, Monitors: []string{"c17"}}
}
