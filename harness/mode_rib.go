package main

import (
	"fmt"
	"math/rand/v2"

	aftpb "github.com/openconfig/gribi/v1/proto/gribi_aft"
	spb "github.com/openconfig/gribi/v1/proto/service"
)

func ribCfgFor(r *rand.Rand, tier string) *RibCfg {
	cfg := &RibCfg{Resolved: r.IntN(2) == 0, Fwd: r.IntN(4) != 0, Pools: DefaultPools(), Steps: 40, WFlush: 40, DupNH: true, BigLabel: true, Malformed: 60}
	if tier == "thorough" {
		cfg.Steps = 60
	}
	if r.IntN(12) == 0 {
		cfg.NoCheck = true
	}
	if r.IntN(2) == 0 {
		// a denser universe: more key reuse
		cfg.Pools.NIs = cfg.Pools.NIs[:2]
		cfg.Pools.V4 = cfg.Pools.V4[:2]
		cfg.Pools.V6 = cfg.Pools.V6[:2]
		cfg.Pools.Labels = cfg.Pools.Labels[:2]
		cfg.Pools.NHGs = cfg.Pools.NHGs[:3]
		cfg.Pools.NHs = cfg.Pools.NHs[:3]
	}
	return cfg
}

func ribCase(name string, cfg *RibCfg, steps []Step) *CaseSpec {
	return &CaseSpec{Name: name, N: len(steps), Run: func(keep []int) (*Trace, error) {
		sub := make([]Step, 0, len(keep))
		for _, k := range keep {
			if k < len(steps) {
				sub = append(sub, steps[k])
			}
		}
		return RunRibHistory(name, cfg, sub)
	}, Inputs: func() []string {
		o := []string{fmt.Sprintf("rib.new %s fwd=%s check=%s", S(cfg.Pools.NIs[0]), B(cfg.Fwd), B(!cfg.NoCheck))}
		for _, s := range steps {
			switch s.Kind {
			case "add", "del":
				l := "rib." + s.Kind + " " + Describe(s.Op, s.Cls).Enc() + " # " + prototextLine(s.Op)
				if s.Gap != nil {
					l += " ## overlapped by: rib." + s.Gap.Kind + " " + Describe(s.Gap.Op, s.Gap.Cls).Enc()
				}
				o = append(o, l)
			case "flush":
				o = append(o, "rib.flush "+LS(s.NIs))
			case "addni":
				o = append(o, "rib.addni "+S(s.NI))
			default:
				o = append(o, "rib."+s.Kind)
			}
		}
		return o
	}}
}

// hand-written histories named in the properties' texts
func ribCorpus() []*CaseSpec {
	p := DefaultPools()
	mk := func(id uint64, ty spb.AFTOperation_Operation, ni string) *spb.AFTOperation {
		return &spb.AFTOperation{Id: id, Op: ty, NetworkInstance: ni}
	}
	nh := func(id uint64, ty spb.AFTOperation_Operation, ni string, idx uint64) Step {
		o := mk(id, ty, ni)
		o.Entry = &spb.AFTOperation_NextHop{NextHop: &aftpb.Afts_NextHopKey{Index: idx, NextHop: &aftpb.Afts_NextHop{IpAddress: sv("10.0.0.1")}}}
		k := "add"
		if ty == spb.AFTOperation_DELETE {
			k = "del"
		}
		return Step{Kind: k, Op: o}
	}
	nhg := func(id uint64, ty spb.AFTOperation_Operation, ni string, g uint64, backup uint64, nhs ...uint64) Step {
		o := mk(id, ty, ni)
		gg := &aftpb.Afts_NextHopGroup{}
		for _, n := range nhs {
			gg.NextHop = append(gg.NextHop, &aftpb.Afts_NextHopGroup_NextHopKey{Index: n, NextHop: &aftpb.Afts_NextHopGroup_NextHop{Weight: uv(1)}})
		}
		if backup != 0 {
			gg.BackupNextHopGroup = uv(backup)
		}
		o.Entry = &spb.AFTOperation_NextHopGroup{NextHopGroup: &aftpb.Afts_NextHopGroupKey{Id: g, NextHopGroup: gg}}
		k := "add"
		if ty == spb.AFTOperation_DELETE {
			k = "del"
		}
		return Step{Kind: k, Op: o}
	}
	v4 := func(id uint64, ty spb.AFTOperation_Operation, ni, pfx string, g uint64, gni string) Step {
		o := mk(id, ty, ni)
		e := &aftpb.Afts_Ipv4Entry{NextHopGroup: uv(g)}
		if gni != "" {
			e.NextHopGroupNetworkInstance = sv(gni)
		}
		o.Entry = &spb.AFTOperation_Ipv4{Ipv4: &aftpb.Afts_Ipv4EntryKey{Prefix: pfx, Ipv4Entry: e}}
		k := "add"
		if ty == spb.AFTOperation_DELETE {
			k = "del"
		}
		return Step{Kind: k, Op: o}
	}
	v6 := func(id uint64, ty spb.AFTOperation_Operation, ni, pfx string, g uint64, gni string) Step {
		o := mk(id, ty, ni)
		e := &aftpb.Afts_Ipv6Entry{NextHopGroup: uv(g)}
		if gni != "" {
			e.NextHopGroupNetworkInstance = sv(gni)
		}
		o.Entry = &spb.AFTOperation_Ipv6{Ipv6: &aftpb.Afts_Ipv6EntryKey{Prefix: pfx, Ipv6Entry: e}}
		k := "add"
		if ty == spb.AFTOperation_DELETE {
			k = "del"
		}
		return Step{Kind: k, Op: o}
	}
	mpls := func(id uint64, ty spb.AFTOperation_Operation, ni string, l uint64, g uint64) Step {
		o := mk(id, ty, ni)
		o.Entry = &spb.AFTOperation_Mpls{Mpls: &aftpb.Afts_LabelEntryKey{Label: &aftpb.Afts_LabelEntryKey_LabelUint64{LabelUint64: l}, LabelEntry: &aftpb.Afts_LabelEntry{NextHopGroup: uv(g)}}}
		k := "add"
		if ty == spb.AFTOperation_DELETE {
			k = "del"
		}
		return Step{Kind: k, Op: o}
	}
	A, R, D := spb.AFTOperation_ADD, spb.AFTOperation_REPLACE, spb.AFTOperation_DELETE
	ni2 := Step{Kind: "addni", NI: "VRF1"}
	hook := Step{Kind: "sethook"}
	fwd := &RibCfg{Fwd: true, Pools: p, Resolved: true}
	nofwd := &RibCfg{Fwd: false, Pools: p}
	bad := func(s Step) Step { s.Cls = "bad"; return s }
	burst := func(s Step) Step { s.Burst = true; return s }
	// ADD immediately followed by DELETE of the same prefix, over a RIB large enough for a snapshot
	// to take a while: each ADD's resolved-entry snapshot must still show the entry
	burstSteps := []Step{ni2, hook, nh(1, A, "DEFAULT", 1), nhg(2, A, "DEFAULT", 1, 0, 1)}
	for i := uint64(0); i < 150; i++ {
		burstSteps = append(burstSteps, burst(nh(100+i, A, "VRF1", 10+i)))
	}
	burstSteps = append(burstSteps, nh(300, A, "VRF1", 5))
	for i := uint64(0); i < 12; i++ {
		burstSteps = append(burstSteps, burst(v4(400+2*i, A, "DEFAULT", "2.0.0.0/8", 1, "")), v4(401+2*i, D, "DEFAULT", "2.0.0.0/8", 1, ""))
	}
	return []*CaseSpec{
		ribCase("corpus/burst-add-delete", fwd, burstSteps),
		// DELETE of keys that are not a prefix / a label of the 20-bit range (D21): FAILED, nothing changes
		ribCase("corpus/delete-invalid-key", fwd, []Step{nh(1, A, "DEFAULT", 1), nhg(2, A, "DEFAULT", 1, 0, 1), v4(3, A, "DEFAULT", "1.0.0.0/8", 1, ""),
			bad(v4(4, D, "DEFAULT", "not-a-prefix", 1, "")), bad(v6(5, D, "DEFAULT", "1.2.3.4/33", 1, "")), bad(mpls(6, D, "DEFAULT", 1048576+100, 1)), bad(v4(7, D, "DEFAULT", "", 1, ""))}),
		// a group naming index 0 next to a next-hop that is not installed (D22): FAILED, never held
		ribCase("corpus/nhg-zero-and-missing", fwd, []Step{nh(1, A, "DEFAULT", 1), nhg(2, A, "DEFAULT", 1, 0, 0, 3), nhg(3, A, "DEFAULT", 2, 0, 3, 0), nhg(4, A, "DEFAULT", 3, 0, 1, 0, 3), nh(5, A, "DEFAULT", 3)}),
		// REPLACE queued behind a missing group, then DELETE, then the group arrives
		ribCase("corpus/replace-held-delete-group-arrives", fwd, []Step{hook, nh(1, A, "DEFAULT", 1), nhg(2, A, "DEFAULT", 1, 0, 1), v4(3, A, "DEFAULT", "1.0.0.0/8", 1, ""),
			v4(4, R, "DEFAULT", "1.0.0.0/8", 5, ""), v4(5, D, "DEFAULT", "1.0.0.0/8", 0, ""), nhg(6, A, "DEFAULT", 5, 0, 1), nh(7, A, "DEFAULT", 2), nhg(8, A, "DEFAULT", 2, 0, 2)}),
		// DELETE of MPLS label 2^32+100 aliasing label 100
		ribCase("corpus/mpls-delete-alias", fwd, []Step{nh(1, A, "DEFAULT", 1), nhg(2, A, "DEFAULT", 1, 0, 1), mpls(3, A, "DEFAULT", 100, 1), mpls(4, D, "DEFAULT", (1<<32)+100, 1), mpls(5, D, "DEFAULT", 100, 1)}),
		// a group listing the same next-hop twice
		ribCase("corpus/nhg-dup-nh", fwd, []Step{nh(1, A, "DEFAULT", 1), nhg(2, A, "DEFAULT", 1, 0, 1, 1), nhg(3, D, "DEFAULT", 1, 0), nh(4, D, "DEFAULT", 1)}),
		// two groups sharing a backup group, and a backup id that does not exist; then flush
		ribCase("corpus/flush-shared-backup", fwd, []Step{hook, nh(1, A, "DEFAULT", 1), nhg(2, A, "DEFAULT", 9, 0, 1), nhg(3, A, "DEFAULT", 1, 9, 1), nhg(4, A, "DEFAULT", 2, 9, 1), nhg(5, A, "DEFAULT", 3, 77, 1), {Kind: "flush", NIs: []string{"DEFAULT"}}, nh(6, A, "DEFAULT", 1), nh(7, D, "DEFAULT", 1)}),
		// chain submitted in reverse, transitively resolved
		ribCase("corpus/reverse-chain", fwd, []Step{hook, v4(1, A, "DEFAULT", "1.0.0.0/8", 1, ""), nhg(2, A, "DEFAULT", 1, 0, 1), nh(3, A, "DEFAULT", 1)}),
		ribCase("corpus/reverse-chain-nofwd", nofwd, []Step{v4(1, A, "DEFAULT", "1.0.0.0/8", 1, ""), nhg(2, A, "DEFAULT", 1, 0, 1), nh(3, A, "DEFAULT", 1), nhg(4, A, "DEFAULT", 1, 0, 1), v4(5, A, "DEFAULT", "1.0.0.0/8", 1, "")}),
		// IPv6 entry implicitly replaced onto a group in another instance, then flushed
		ribCase("corpus/v6-retarget-cross-ni-flush", fwd, []Step{ni2, hook, nh(1, A, "DEFAULT", 1), nhg(2, A, "DEFAULT", 1, 0, 1), nh(3, A, "VRF1", 1), nhg(4, A, "VRF1", 1, 0, 1),
			v6(5, A, "VRF1", "2001:db8::/32", 1, ""), v6(6, A, "VRF1", "2001:db8::/32", 1, "DEFAULT"), {Kind: "flush", NIs: []string{"VRF1"}}, nhg(7, D, "DEFAULT", 1, 0), nh(8, D, "DEFAULT", 1), nhg(9, D, "VRF1", 1, 0)}),
		// instance created after the hook was registered
		ribCase("corpus/hook-then-ni", fwd, []Step{hook, ni2, nh(1, A, "VRF1", 1), nhg(2, A, "VRF1", 1, 0, 1), v4(3, A, "VRF1", "1.0.0.0/8", 1, ""), v4(4, D, "VRF1", "1.0.0.0/8", 1, ""), {Kind: "flush", NIs: []string{"VRF1"}}}),
		// a reference into another instance whose group is flushed away (only that instance is
		// flushed), the entry retargeted while the group is absent, the group installed again:
		// nothing refers to it, it can be deleted
		ribCase("corpus/x-ni-flush-retarget-readd", fwd, []Step{ni2, nh(1, A, "DEFAULT", 1), nhg(2, A, "DEFAULT", 5, 0, 1), nh(3, A, "VRF1", 1), nhg(4, A, "VRF1", 6, 0, 1),
			v6(5, A, "VRF1", "2001:db8::/32", 5, "DEFAULT"), mpls(6, A, "VRF1", 1048575, 5), {Kind: "flush", NIs: []string{"DEFAULT"}},
			v6(7, R, "VRF1", "2001:db8::/32", 6, ""), mpls(8, A, "VRF1", 1048575, 6), nh(9, A, "DEFAULT", 1), nhg(10, A, "DEFAULT", 5, 0, 1), nhg(11, D, "DEFAULT", 5, 0), nh(12, D, "DEFAULT", 1)}),
		// a rejected forward reference with forward references disallowed, then later installs:
		// the rejected operation is gone for good
		ribCase("corpus/nofwd-rejected-then-installs", nofwd, []Step{v4(1, A, "DEFAULT", "1.0.0.0/8", 7, ""), v6(2, A, "DEFAULT", "2001:db8::/32", 7, ""), mpls(3, A, "DEFAULT", 1048575, 7),
			nh(4, A, "DEFAULT", 1), nhg(5, A, "DEFAULT", 7, 0, 1), nh(6, A, "DEFAULT", 2)}),
		// held REPLACEs whose keys go away next to a held group whose next-hop arrives (see the
		// server corpus): the group is installed by that cascade whatever the walk meets first
		ribCase("corpus/failing-held-next-to-resolvable-held", fwd, []Step{nh(1, A, "DEFAULT", 1), nhg(2, A, "DEFAULT", 1, 0, 1),
			v4(3, A, "DEFAULT", "1.0.0.0/8", 1, ""), v4(4, A, "DEFAULT", "2.0.0.0/8", 1, ""), v4(5, A, "DEFAULT", "3.0.0.0/8", 1, ""), v4(6, A, "DEFAULT", "4.0.0.0/8", 1, ""),
			v4(7, R, "DEFAULT", "1.0.0.0/8", 7, ""), v4(8, R, "DEFAULT", "2.0.0.0/8", 7, ""), v4(9, R, "DEFAULT", "3.0.0.0/8", 7, ""), v4(10, R, "DEFAULT", "4.0.0.0/8", 7, ""),
			v4(11, D, "DEFAULT", "1.0.0.0/8", 1, ""), v4(12, D, "DEFAULT", "2.0.0.0/8", 1, ""), v4(13, D, "DEFAULT", "3.0.0.0/8", 1, ""), v4(14, D, "DEFAULT", "4.0.0.0/8", 1, ""),
			nhg(15, A, "DEFAULT", 3, 0, 9), nh(16, A, "DEFAULT", 9), nh(17, A, "DEFAULT", 4)}),
		// one group id in two instances: an entry moves from the other instance's group to a group
		// of its own instance; the own instance's group of that id, in use by another entry, stays
		// referenced (its DELETE is refused), the other instance's is released (its DELETE succeeds)
		ribCase("corpus/retarget-across-instances-same-group-id", fwd, []Step{ni2, nh(1, A, "DEFAULT", 1), nhg(2, A, "DEFAULT", 1, 0, 1), nhg(3, A, "DEFAULT", 2, 0, 1),
			nh(4, A, "VRF1", 1), nhg(5, A, "VRF1", 1, 0, 1), v4(6, A, "DEFAULT", "10.0.0.0/8", 1, "VRF1"), v4(7, A, "DEFAULT", "20.0.0.0/8", 1, ""),
			v4(8, A, "DEFAULT", "10.0.0.0/8", 2, ""), nhg(9, D, "DEFAULT", 1, 0), nhg(10, D, "VRF1", 1, 0), v4(11, R, "DEFAULT", "20.0.0.0/8", 1, "VRF1"), nhg(12, D, "DEFAULT", 1, 0)}),
		// held ADD and held REPLACE of one key, both waiting for one group
		ribCase("corpus/held-add-and-replace", fwd, []Step{nh(1, A, "DEFAULT", 1), v4(2, A, "DEFAULT", "1.0.0.0/8", 1, ""), v4(3, R, "DEFAULT", "1.0.0.0/8", 1, ""), nhg(4, A, "DEFAULT", 1, 0, 1), nh(5, A, "DEFAULT", 2), nhg(6, A, "DEFAULT", 2, 0, 2)}),
	}
}

func init() {
	modes["rib"] = &Mode{
		Name: "rib",
		Gen: func(seed uint64, idx int, tier string) *CaseSpec {
			r := rngFor(seed, idx)
			cfg := ribCfgFor(r, tier)
			steps := GenRibHistory(r, cfg)
			return ribCase(fmt.Sprintf("rib/%d/%d", seed, idx), cfg, steps)
		},
		Count: func(tier string) int {
			if tier == "thorough" {
				return 4000
			}
			return 400
		},
		Corpus:   ribCorpus,
		Required: []string{"add.ok", "add.hold", "add.err", "add.cascade", "del.ok", "del.refd", "del.absent", "del.err", "flush", "pend.nonempty", "hooks.nonempty"},
	}
	ribDiffs := []string{"add.", "del.", "ents", "flush", "addni"}
	// C01 is a statement about the server: the second mode drives real Modify streams (held
	// operations released by later ones, several sessions) and folds the acknowledgements the
	// streams carried, in the order they carried them
	props["C01"] = &PropSpec{Mode: "rib", Extra: []string{"srv.answers", "gap"}, Diffs: append(append([]string{}, ribDiffs...), "msg.resps", "msg.not-accepted"), Monitors: []string{"c01"}}
	// "gap": the same judgement with a second writer let in at every point where AddEntry / DeleteEntry pause (the property quantifies over histories, and two sessions make histories that one cannot)
	props["C02"] = &PropSpec{Mode: "rib", Extra: []string{"gap"}, Diffs: []string{"add.", "pend"}, Monitors: []string{"c02"}}
	props["C03"] = &PropSpec{Mode: "rib", Extra: []string{"gap"}, Diffs: []string{"refs", "del."}, Monitors: []string{"c03"}}
	props["C16"] = &PropSpec{Mode: "rib", Extra: []string{"gap"}, Diffs: []string{"hooks", "resolved"}, Monitors: []string{"c16"}}
}
