package main

// Trace encoding shared by every harness mode: tokens separated by single spaces,
// strings percent-encoded with a leading quote, lists in brackets.

import (
	"bufio"
	"crypto/sha256"
	"encoding/hex"
	"fmt"
	"os"
	"sort"
	"strings"
	"sync"

	"google.golang.org/protobuf/encoding/prototext"
	"google.golang.org/protobuf/proto"
	"google.golang.org/protobuf/reflect/protoreflect"
)

// Trace accumulates the lines of one trace.
type Trace struct {
	Lines []string
}

func (t *Trace) Add(format string, a ...any) {
	t.Lines = append(t.Lines, fmt.Sprintf(format, a...))
}

func (t *Trace) WriteTo(path string) error {
	f, err := os.Create(path)
	if err != nil {
		return err
	}
	w := bufio.NewWriter(f)
	for _, l := range t.Lines {
		w.WriteString(l)
		w.WriteByte('\n')
	}
	if err := w.Flush(); err != nil {
		return err
	}
	return f.Close()
}

// S encodes a string token.
func S(s string) string {
	var b strings.Builder
	b.WriteByte('\'')
	for i := 0; i < len(s); i++ {
		c := s[i]
		if c <= ' ' || c == '%' || c == '|' || c == ',' || c == '[' || c == ']' || c >= 0x7f {
			fmt.Fprintf(&b, "%%%02x", c)
		} else {
			b.WriteByte(c)
		}
	}
	return b.String()
}

func B(b bool) string {
	if b {
		return "1"
	}
	return "0"
}

// L encodes a list of unsigned numbers.
func L(l []uint64) string {
	s := make([]string, len(l))
	for i, v := range l {
		s[i] = fmt.Sprint(v)
	}
	return "[" + strings.Join(s, ",") + "]"
}

// LS encodes a list of strings.
func LS(l []string) string {
	s := make([]string, len(l))
	for i, v := range l {
		s[i] = S(v)
	}
	return "[" + strings.Join(s, ",") + "]"
}

// ---- canonical rendering of protobuf payloads ----

// canonBytes renders m deterministically: fields in number order, keyed lists
// (repeated messages whose type name ends in "Key") sorted and de-duplicated,
// other repeated fields in order.
func canonBytes(m protoreflect.Message) []byte {
	var out []byte
	fds := m.Descriptor().Fields()
	idx := make([]int, fds.Len())
	for i := range idx {
		idx[i] = i
	}
	sort.Slice(idx, func(a, b int) bool { return fds.Get(idx[a]).Number() < fds.Get(idx[b]).Number() })
	for _, i := range idx {
		fd := fds.Get(i)
		if !m.Has(fd) {
			continue
		}
		v := m.Get(fd)
		// an empty bytes wrapper and an absent one are the same value in the YANG model
		if fd.Kind() == protoreflect.MessageKind && !fd.IsList() && fd.Message().FullName() == "ywrapper.BytesValue" && len(v.Message().Get(fd.Message().Fields().ByName("value")).Bytes()) == 0 {
			continue
		}
		tag := fmt.Sprintf("%s=", fd.Name())
		switch {
		case fd.IsList():
			l := v.List()
			elems := make([]string, 0, l.Len())
			for j := 0; j < l.Len(); j++ {
				elems = append(elems, canonValue(fd, l.Get(j)))
			}
			if fd.Kind() == protoreflect.MessageKind && strings.HasSuffix(string(fd.Message().Name()), "Key") {
				sort.Strings(elems)
				dd := elems[:0]
				for j, e := range elems {
					if j == 0 || e != elems[j-1] {
						dd = append(dd, e)
					}
				}
				elems = dd
			}
			out = append(out, []byte(tag+"["+strings.Join(elems, ";")+"]")...)
		case fd.IsMap():
			out = append(out, []byte(tag+"<map>")...)
		default:
			out = append(out, []byte(tag+canonValue(fd, v))...)
		}
		out = append(out, ' ')
	}
	return out
}

func canonValue(fd protoreflect.FieldDescriptor, v protoreflect.Value) string {
	switch fd.Kind() {
	case protoreflect.MessageKind, protoreflect.GroupKind:
		return "{" + string(canonBytes(v.Message())) + "}"
	case protoreflect.BytesKind:
		return "x" + hex.EncodeToString(v.Bytes())
	case protoreflect.StringKind:
		return fmt.Sprintf("%q", v.String())
	case protoreflect.EnumKind:
		return fmt.Sprintf("e%d", v.Enum())
	default:
		return fmt.Sprint(v.Interface())
	}
}

// bodyTable remembers the canonical text behind each body hash, for diagnostics.
var bodyTable = map[string]string{}
var bodyMu sync.Mutex

// Body returns the short hash used as opaque payload body in traces.
func Body(m proto.Message) string {
	c := []byte{}
	if m != nil && m.ProtoReflect().IsValid() {
		c = canonBytes(m.ProtoReflect())
	}
	h := sha256.Sum256(c)
	s := hex.EncodeToString(h[:6])
	bodyMu.Lock()
	bodyTable[s] = string(c)
	bodyMu.Unlock()
	return s
}

func prototextLine(m proto.Message) string {
	if m == nil {
		return "<nil>"
	}
	return strings.Join(strings.Fields(prototext.MarshalOptions{Multiline: false}.Format(m)), " ")
}
