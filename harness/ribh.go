package main

// RIB-level histories against the real rib.RIB (properties C01, C02, C03, C16, and the
// RIB halves of C07/C08).

import (
	"errors"
	"fmt"
	"math/rand/v2"
	"reflect"
	"runtime"
	"sort"
	"strings"
	"sync"
	"sync/atomic"
	"time"

	"github.com/openconfig/gribigo/aft"
	"github.com/openconfig/gribigo/constants"
	"github.com/openconfig/gribigo/rib"
	"github.com/openconfig/ygot/ygot"

	aftpb "github.com/openconfig/gribi/v1/proto/gribi_aft"
	spb "github.com/openconfig/gribi/v1/proto/service"
	wpb "github.com/openconfig/ygot/proto/ywrapper"
)

// Step is one input of a RIB-level history.
type Step struct {
	Kind string // add del flush addni sethook
	Op   *spb.AFTOperation
	Cls  string
	// Burst: the next step follows at once: no observation, and no wait for the notification
	// goroutines, between this step and the next
	Burst bool
	NIs   []string
	NI    string
	// Gap, when set on an add/del step, is a second add/del step that another goroutine tries to
	// execute while this one is between its table change and its bookkeeping (the point where
	// the post-change hook runs). With the RIB's operations serialised it simply runs afterwards.
	Gap *Step
}

type RibCfg struct {
	Resolved bool // register a resolved-entry hook
	Fwd      bool
	// NoCheck: the RIB is created with DisableRIBCheckFn (no resolution or reference check at
	// all: a plain keyed store). The model does not describe that configuration; what is judged
	// there is what needs no model: contents = fold of the acknowledgements, notifications = contents
	NoCheck bool
	Pools   *Pools
	Steps   int
	// weights
	WFlush, WAddNI, WHook int
	DupNH                 bool // allow a group to list a next-hop twice
	BigLabel              bool // allow DELETE of labels >= 2^32
	Malformed             int  // per-mille of malformed operations
}

// shadow is the generator's rough idea of what is installed; it only steers choices.
type shadow struct {
	has map[string]bool
}

func (s *shadow) k(ni, kind string, id any) string { return fmt.Sprintf("%s|%s|%v", ni, kind, id) }

// biasEntry rewrites the keys/references of a freshly generated entry so that, with
// probability ~2/3, references point at things that probably exist.
func (s *shadow) biasEntry(r *rand.Rand, p *Pools, op *spb.AFTOperation) {
	ni := op.NetworkInstance
	existing := func(inNI, kind string, pool []uint64) []uint64 {
		o := []uint64{}
		for _, x := range pool {
			if s.has[s.k(inNI, kind, x)] {
				o = append(o, x)
			}
		}
		return o
	}
	retarget := func(grpNI *wpb.StringValue) (uint64, bool) {
		t := ni
		if grpNI != nil {
			t = grpNI.Value
		}
		if ex := existing(t, "nhg", p.NHGs); len(ex) > 0 {
			return ex[r.IntN(len(ex))], true
		}
		return 0, false
	}
	if r.IntN(3) == 0 {
		return
	}
	switch t := op.Entry.(type) {
	case *spb.AFTOperation_Ipv4:
		if g, ok := retarget(t.Ipv4.Ipv4Entry.NextHopGroupNetworkInstance); ok {
			t.Ipv4.Ipv4Entry.NextHopGroup = uv(g)
		}
	case *spb.AFTOperation_Ipv6:
		if g, ok := retarget(t.Ipv6.Ipv6Entry.NextHopGroupNetworkInstance); ok {
			t.Ipv6.Ipv6Entry.NextHopGroup = uv(g)
		}
	case *spb.AFTOperation_Mpls:
		if g, ok := retarget(t.Mpls.LabelEntry.NextHopGroupNetworkInstance); ok {
			t.Mpls.LabelEntry.NextHopGroup = uv(g)
		}
	case *spb.AFTOperation_NextHopGroup:
		ex := existing(ni, "nh", p.NHs)
		if len(ex) > 0 {
			g := t.NextHopGroup.NextHopGroup
			seen := map[uint64]bool{}
			out := g.NextHop[:0]
			for _, n := range g.NextHop {
				n.Index = ex[r.IntN(len(ex))]
				if !seen[n.Index] {
					seen[n.Index] = true
					out = append(out, n)
				}
			}
			g.NextHop = out
		}
	}
}

func (s *shadow) note(op *spb.AFTOperation) {
	m := Describe(op, "")
	var id any = m.Key.Num
	if m.Key.Kind == "v4" || m.Key.Kind == "v6" {
		id = m.Key.Str
	}
	key := s.k(m.NI, m.Key.Kind, id)
	if op.Op == spb.AFTOperation_DELETE {
		delete(s.has, key)
		return
	}
	ok := true
	switch m.Key.Kind {
	case "nhg":
		for _, n := range m.PL.NHs {
			ok = ok && s.has[s.k(m.NI, "nh", n)]
		}
	case "nh":
	default:
		t := m.NI
		if m.PL.GrpNI != "" {
			t = m.PL.GrpNI
		}
		ok = s.has[s.k(t, "nhg", m.PL.Grp)]
	}
	if ok {
		s.has[key] = true
	}
}

// retargetDelete points a DELETE at a key that probably exists (2/3 of the time).
func (s *shadow) retargetDelete(r *rand.Rand, p *Pools, op *spb.AFTOperation) {
	if r.IntN(3) == 0 {
		return
	}
	ni := op.NetworkInstance
	switch t := op.Entry.(type) {
	case *spb.AFTOperation_Ipv4:
		for _, x := range p.V4 {
			if s.has[s.k(ni, "v4", x)] {
				t.Ipv4.Prefix = x
			}
		}
	case *spb.AFTOperation_Ipv6:
		for _, x := range p.V6 {
			if s.has[s.k(ni, "v6", x)] {
				t.Ipv6.Prefix = x
			}
		}
	case *spb.AFTOperation_Mpls:
		for _, x := range p.Labels {
			if s.has[s.k(ni, "mpls", x)] {
				t.Mpls.Label = &aftpb.Afts_LabelEntryKey_LabelUint64{LabelUint64: x}
			}
		}
	case *spb.AFTOperation_NextHopGroup:
		for _, x := range p.NHGs {
			if s.has[s.k(ni, "nhg", x)] && r.IntN(2) == 0 {
				t.NextHopGroup.Id = x
			}
		}
	case *spb.AFTOperation_NextHop:
		for _, x := range p.NHs {
			if s.has[s.k(ni, "nh", x)] && r.IntN(2) == 0 {
				t.NextHop.Index = x
			}
		}
	}
}

// GenRibHistory generates the inputs of one history.
func GenRibHistory(r *rand.Rand, cfg *RibCfg) []Step {
	p := cfg.Pools
	steps := []Step{}
	known := map[string]bool{p.NIs[0]: true}
	knownL := []string{p.NIs[0]}
	sh := &shadow{has: map[string]bool{}}
	// instance creation and hook registration happen at random points near the start
	pendingNI := append([]string{}, p.NIs[1:]...)
	hookAt := r.IntN(6)
	id := uint64(0)
	// often start with a few next-hops so that later references have something to find
	for k := r.IntN(5); k > 0; k-- {
		id++
		op := &spb.AFTOperation{Id: id, Op: spb.AFTOperation_ADD, NetworkInstance: p.NIs[0]}
		p.GenEntry(r, op, "nh")
		sh.note(op)
		steps = append(steps, Step{Kind: "add", Op: op})
	}
	for i := 0; len(steps) < cfg.Steps; i++ {
		if i == hookAt {
			steps = append(steps, Step{Kind: "sethook"})
		}
		if len(pendingNI) > 0 && r.IntN(3) == 0 {
			steps = append(steps, Step{Kind: "addni", NI: pendingNI[0]})
			known[pendingNI[0]] = true
			knownL = append(knownL, pendingNI[0])
			pendingNI = pendingNI[1:]
			continue
		}
		x := r.IntN(1000)
		if x < cfg.WFlush {
			nis := []string{}
			for _, n := range p.NIs {
				if known[n] && r.IntN(2) == 0 {
					nis = append(nis, n)
				}
			}
			if r.IntN(3) == 0 {
				nis = append([]string{}, knownL...)
			}
			for _, n := range nis {
				for k := range sh.has {
					if strings.HasPrefix(k, n+"|") {
						delete(sh.has, k)
					}
				}
			}
			steps = append(steps, Step{Kind: "flush", NIs: nis})
			continue
		}
		id++
		p.Known = knownL
		op := &spb.AFTOperation{Id: id}
		// instance: mostly known ones
		if r.IntN(25) == 0 {
			op.NetworkInstance = p.NIs[r.IntN(len(p.NIs))]
		} else {
			op.NetworkInstance = knownL[r.IntN(len(knownL))]
		}
		switch y := r.IntN(20); {
		case y < 12:
			op.Op = spb.AFTOperation_ADD
		case y < 15:
			op.Op = spb.AFTOperation_REPLACE
		default:
			op.Op = spb.AFTOperation_DELETE
		}
		p.GenEntry(r, op, "")
		cls := ""
		if op.Op == spb.AFTOperation_DELETE {
			sh.retargetDelete(r, p, op)
		} else {
			if op.Op == spb.AFTOperation_REPLACE {
				sh.retargetDelete(r, p, op)
			}
			sh.biasEntry(r, p, op)
		}
		if cfg.DupNH && r.IntN(6) == 0 {
			if t, ok := op.Entry.(*spb.AFTOperation_NextHopGroup); ok && len(t.NextHopGroup.NextHopGroup.NextHop) > 0 {
				g := t.NextHopGroup.NextHopGroup
				g.NextHop = append(g.NextHop, &aftpb.Afts_NextHopGroup_NextHopKey{Index: g.NextHop[0].Index, NextHop: g.NextHop[0].NextHop})
			}
		}
		if op.Op == spb.AFTOperation_DELETE {
			if r.IntN(2) == 0 {
				KeyOnly(op)
			}
			if cfg.BigLabel && r.IntN(4) == 0 {
				if t, ok := op.Entry.(*spb.AFTOperation_Mpls); ok {
					t.Mpls.Label = &aftpb.Afts_LabelEntryKey_LabelUint64{LabelUint64: t.Mpls.GetLabelUint64() + (1 << 32)}
				}
			}
		}
		if r.IntN(1000) < cfg.Malformed {
			cls = Malform(r, op)
		} else if known[op.NetworkInstance] {
			sh.note(op)
		}
		kind := "add"
		if op.Op == spb.AFTOperation_DELETE {
			kind = "del"
		}
		steps = append(steps, Step{Kind: kind, Op: op, Cls: cls})
	}
	return steps
}

// hookRec records post-change notifications.
type hookRec struct {
	mu  sync.Mutex
	evs []string
	// park, when set, is called (outside the lock) at every notification: a case can hold the
	// operation that is being applied at exactly this point while something else happens
	park func()
}

func (h *hookRec) fn(op constants.OpType, _ int64, ni string, e ygot.ValidatedGoStruct) {
	h.mu.Lock()
	pk := h.park
	h.mu.Unlock()
	if pk != nil {
		pk()
	}
	h.mu.Lock()
	defer h.mu.Unlock()
	kind := "add"
	if op == constants.Delete {
		kind = "del"
	}
	if op != constants.Add && op != constants.Delete {
		kind = "other"
	}
	h.evs = append(h.evs, fmt.Sprintf("%s %s %s", kind, S(ni), encStruct(e)))
}

func (h *hookRec) drain() []string {
	h.mu.Lock()
	defer h.mu.Unlock()
	o := h.evs
	h.evs = nil
	return o
}

// resRec records resolved-entry notifications. Each notification's snapshot is rendered at
// delivery and kept, so that it can be rendered again at the end of the history to detect
// later mutation.
type resRec struct {
	mu   sync.Mutex
	evs  []string
	keep []resKept
	n    int
}
type resKept struct {
	ribs map[string]*aft.RIB
	at   string
}

func renderRIBs(ribs map[string]*aft.RIB) string {
	nis := []string{}
	for n := range ribs {
		nis = append(nis, n)
	}
	sort.Strings(nis)
	var b strings.Builder
	for _, n := range nis {
		js, err := ygot.Marshal7951(ribs[n])
		if err != nil {
			js = []byte("err:" + err.Error())
		}
		fmt.Fprintf(&b, "%s=%s;", n, js)
	}
	return b.String()
}

func (h *resRec) fn(ribs map[string]*aft.RIB, op constants.OpType, ni string, a constants.AFT, key any, _ ...rib.ResolvedDetails) {
	kind := "add"
	if op == constants.Delete {
		kind = "del"
	}
	var k MKey
	has := false
	afts := ribs[ni].GetAfts()
	switch a {
	case constants.IPv4:
		p, _ := key.(string)
		k = MKey{Kind: "v4", Str: p}
		if afts != nil {
			_, has = afts.Ipv4Entry[p]
		}
	case constants.IPv6:
		p, _ := key.(string)
		k = MKey{Kind: "v6", Str: p}
		if afts != nil {
			_, has = afts.Ipv6Entry[p]
		}
	case constants.MPLS:
		switch v := key.(type) {
		case uint64:
			k = MKey{Kind: "mpls", Num: v}
		case aft.Afts_LabelEntry_Label_Union:
			if u, ok := v.(aft.UnionUint32); ok {
				k = MKey{Kind: "mpls", Num: uint64(u)}
			}
		}
		if afts != nil {
			_, has = afts.LabelEntry[aft.UnionUint32(uint32(k.Num))]
		}
	default:
		k = MKey{Kind: "nh", Num: 0}
	}
	h.mu.Lock()
	defer h.mu.Unlock()
	h.evs = append(h.evs, fmt.Sprintf("%s %s %s %s", kind, S(ni), k.Enc(), B(has)))
	h.n++
	if h.n%2 == 0 {
		// every second notification: a consumer that uses the snapshot it was handed as its own
		// working copy and writes all over it. The snapshot is the consumer's; neither the
		// snapshots delivered before (kept below and rendered again at the end) nor the RIB
		// may change with it.
		scribble(ribs)
		return
	}
	h.keep = append(h.keep, resKept{ribs: ribs, at: renderRIBs(ribs)})
}

// scribble overwrites what a consumer can reach in a snapshot: the group of every IPv4, IPv6 and
// label entry, the weights of every group member; and it empties the next-hop table.
func scribble(ribs map[string]*aft.RIB) {
	for _, r := range ribs {
		a := r.GetAfts()
		if a == nil {
			continue
		}
		for _, e := range a.Ipv4Entry {
			e.NextHopGroup = ygot.Uint64(999)
		}
		for _, e := range a.Ipv6Entry {
			e.NextHopGroup = ygot.Uint64(999)
		}
		for _, e := range a.LabelEntry {
			e.NextHopGroup = ygot.Uint64(999)
		}
		for _, g := range a.NextHopGroup {
			for _, m := range g.NextHop {
				m.Weight = ygot.Uint64(64)
			}
		}
		for k := range a.NextHop {
			delete(a.NextHop, k)
		}
	}
}

// hookGoroutines reports whether some goroutine is (about to be) running the resolved hook.
func resolvedInFlight() bool {
	buf := make([]byte, 4<<20)
	n := runtime.Stack(buf, true)
	// a notification goroutine that has not been scheduled yet shows only its wrapper
	// (rib.(*RIB).callResolvedEntryHook.gowrapN / "created by …callResolvedEntryHook")
	d := string(buf[:n])
	return strings.Contains(d, "(*resRec).fn") || strings.Contains(d, "callResolvedEntryHook")
}

func (h *resRec) drain() []string {
	deadline := time.Now().Add(2 * time.Second)
	for resolvedInFlight() && time.Now().Before(deadline) {
		time.Sleep(20 * time.Microsecond)
	}
	h.mu.Lock()
	defer h.mu.Unlock()
	o := h.evs
	h.evs = nil
	sort.Strings(o)
	return o
}

// stable reports whether every kept snapshot still renders as it did at delivery.
func (h *resRec) stable() bool {
	h.mu.Lock()
	defer h.mu.Unlock()
	for _, k := range h.keep {
		if renderRIBs(k.ribs) != k.at {
			return false
		}
	}
	return true
}

// encStruct renders a ygot AFT entry struct as "<key> <payload>" or "nil".
func encStruct(e any) string {
	if e == nil {
		return "nil"
	}
	if v := reflect.ValueOf(e); v.Kind() == reflect.Ptr && v.IsNil() {
		return "nil"
	}
	k, p, err := describeStruct(e)
	if err != nil {
		return "err:" + S(err.Error())
	}
	return k.Enc() + " " + p.Enc()
}

func describeStruct(e any) (MKey, MPayload, error) {
	switch t := e.(type) {
	case *aft.Afts_Ipv4Entry:
		p, err := rib.ConcreteIPv4Proto(t)
		if err != nil {
			return MKey{}, MPayload{}, err
		}
		return MKey{Kind: "v4", Str: p.GetPrefix()}, topPayload(p.GetIpv4Entry(), p.GetIpv4Entry()), nil
	case *aft.Afts_Ipv6Entry:
		p, err := rib.ConcreteIPv6Proto(t)
		if err != nil {
			return MKey{}, MPayload{}, err
		}
		return MKey{Kind: "v6", Str: p.GetPrefix()}, topPayload(p.GetIpv6Entry(), p.GetIpv6Entry()), nil
	case *aft.Afts_LabelEntry:
		p, err := rib.ConcreteMPLSProto(t)
		if err != nil {
			return MKey{}, MPayload{}, err
		}
		return MKey{Kind: "mpls", Num: p.GetLabelUint64()}, topPayload(p.GetLabelEntry(), p.GetLabelEntry()), nil
	case *aft.Afts_NextHopGroup:
		p, err := rib.ConcreteNextHopGroupProto(t)
		if err != nil {
			return MKey{}, MPayload{}, err
		}
		pl := nhgPayload(p.GetNextHopGroup())
		sort.Slice(pl.NHs, func(i, j int) bool { return pl.NHs[i] < pl.NHs[j] })
		return MKey{Kind: "nhg", Num: p.GetId()}, pl, nil
	case *aft.Afts_NextHop:
		p, err := rib.ConcreteNextHopProto(t)
		if err != nil {
			return MKey{}, MPayload{}, err
		}
		return MKey{Kind: "nh", Num: p.GetIndex()}, MPayload{Body: Body(p.GetNextHop())}, nil
	}
	return MKey{}, MPayload{}, fmt.Errorf("unknown struct %T", e)
}

// entsLine renders the contents of r as "n | 'ni key payload | …" (sorted), and the instance names.
func entsLine(r *rib.RIB) (string, []string, error) {
	c, err := r.RIBContents()
	if err != nil {
		return "", nil, err
	}
	nis := []string{}
	for ni := range c {
		nis = append(nis, ni)
	}
	sort.Strings(nis)
	ents := []string{}
	for _, ni := range nis {
		a := c[ni].GetAfts()
		if a == nil {
			continue
		}
		var l []string
		add := func(e any) error {
			k, p, err := describeStruct(e)
			if err != nil {
				return err
			}
			l = append(l, fmt.Sprintf("%s %s %s", S(ni), k.Enc(), p.Enc()))
			return nil
		}
		for _, e := range a.Ipv4Entry {
			if err := add(e); err != nil {
				return "", nil, err
			}
		}
		for _, e := range a.Ipv6Entry {
			if err := add(e); err != nil {
				return "", nil, err
			}
		}
		for _, e := range a.LabelEntry {
			if err := add(e); err != nil {
				return "", nil, err
			}
		}
		for _, e := range a.NextHopGroup {
			if err := add(e); err != nil {
				return "", nil, err
			}
		}
		for _, e := range a.NextHop {
			if err := add(e); err != nil {
				return "", nil, err
			}
		}
		sort.Strings(l)
		ents = append(ents, l...)
	}
	line := fmt.Sprintf("%d", len(ents))
	for _, e := range ents {
		line += " | " + e
	}
	return line, nis, nil
}

// ObsRIB appends the observation lines (contents, counters, held ids) of r to t.
// errHang: reading the state of the code under test did not return (a lock is held for good);
// the trace has a "hang" line and the case ends there.
var errHang = errors.New("the code under test did not answer (hang)")

// ObsRIB appends the observations of the RIB's state. It runs under a watchdog: with a leaked
// lock the reads never return, and the case must end (as a hang) rather than the run.
func ObsRIB(t *Trace, r *rib.RIB) error {
	tt := &Trace{}
	done := make(chan error, 1)
	go func() { done <- obsRIB(tt, r) }()
	select {
	case err := <-done:
		if err != nil {
			return err
		}
		t.Lines = append(t.Lines, tt.Lines...)
		return nil
	case <-time.After(wd(20 * time.Second)):
		noteIfWedged()
		t.Add("hang")
		return errHang
	}
}

func obsRIB(t *Trace, r *rib.RIB) error {
	line, nis, err := entsLine(r)
	if err != nil {
		return err
	}
	t.Add("obs.ents %s", line)

	refs := []string{}
	rc := r.VerifRefCounts()
	for _, ni := range nis {
		x := rc[ni]
		if x == nil {
			continue
		}
		var l []string
		for k, v := range x.NextHopGroup {
			if v != 0 {
				l = append(l, fmt.Sprintf("nhg %s %d %d", S(ni), k, v))
			}
		}
		for k, v := range x.NextHop {
			if v != 0 {
				l = append(l, fmt.Sprintf("nh %s %d %d", S(ni), k, v))
			}
		}
		sort.Strings(l)
		refs = append(refs, l...)
	}
	line = fmt.Sprintf("obs.refs %d", len(refs))
	for _, e := range refs {
		line += " | " + e
	}
	t.Add("%s", line)
	t.Add("obs.pend %s", L(r.VerifPendingIDs()))
	return nil
}

func resIDs(rs []*rib.OpResult) []uint64 {
	o := []uint64{}
	for _, r := range rs {
		o = append(o, r.ID)
	}
	return o
}

// RunRibHistory executes steps on a real rib.RIB and returns the trace.
func RunRibHistory(name string, cfg *RibCfg, steps []Step) (*Trace, error) {
	t := &Trace{}
	t.Add("begin %s", name)
	var r *rib.RIB
	switch {
	case cfg.NoCheck:
		r = rib.New(cfg.Pools.NIs[0], rib.DisableRIBCheckFn())
	case cfg.Fwd:
		r = rib.New(cfg.Pools.NIs[0])
	default:
		r = rib.New(cfg.Pools.NIs[0], rib.DisableForwardReferences())
	}
	if cfg.NoCheck {
		t.Add("rib.new %s fwd=%s check=0", S(cfg.Pools.NIs[0]), B(cfg.Fwd))
	} else {
		t.Add("rib.new %s fwd=%s", S(cfg.Pools.NIs[0]), B(cfg.Fwd))
	}
	h := &hookRec{}
	rr := &resRec{}
	if cfg.Resolved {
		r.SetResolvedEntryHook(rr.fn)
		t.Add("rib.resolvedhook")
	}
	runOp := func(s Step) string {
		m := Describe(s.Op, s.Cls)
		if s.Kind == "add" {
			oks, fails, err := r.AddEntry(s.Op.GetNetworkInstance(), s.Op)
			return fmt.Sprintf("rib.add %s => %s %s %s", m.Enc(), L(resIDs(oks)), L(resIDs(fails)), B(err != nil))
		}
		oks, fails, err := r.DeleteEntry(s.Op.GetNetworkInstance(), s.Op)
		return fmt.Sprintf("rib.del %s => %s %s %s", m.Enc(), L(resIDs(oks)), L(resIDs(fails)), B(err != nil))
	}
	for _, s := range steps {
		crashed := ""
		// the step runs under a watchdog: a call into the RIB that never returns (a leaked lock, a
		// lock-order inversion with the second writer) ends the history as a hang instead of the run.
		// The step writes its lines to a buffer of its own, which is taken over only if it finished.
		var lmu sync.Mutex
		lines := []string{}
		add := func(format string, a ...interface{}) {
			lmu.Lock()
			lines = append(lines, fmt.Sprintf(format, a...))
			lmu.Unlock()
		}
		stepDone := make(chan struct{})
		go func() {
			defer close(stepDone)
			func() {
				defer func() {
					if p := recover(); p != nil {
						crashed = fmt.Sprint(p)
					}
				}()
				if s.Gap != nil && (s.Kind == "add" || s.Kind == "del") {
					var once atomic.Bool
					yDone := make(chan string, 1)
					r.SetPostChangeHook(func(constants.OpType, int64, string, ygot.ValidatedGoStruct) {
						if once.Swap(true) {
							return
						}
						go func() {
							defer func() {
								if p := recover(); p != nil {
									yDone <- fmt.Sprintf("crash %s %s", Describe(s.Gap.Op, s.Gap.Cls).Enc(), S(fmt.Sprint(p)))
								}
							}()
							yDone <- runOp(*s.Gap)
						}()
						select {
						case l := <-yDone:
							yDone <- l
						case <-time.After(25 * time.Millisecond):
						}
					})
					xl := runOp(s)
					add("%s", xl)
					if !once.Load() {
						// X changed nothing, so there was no gap: Y simply runs next
						r.SetPostChangeHook(nil)
						add("%s", runOp(*s.Gap))
					} else {
						select {
						case l := <-yDone:
							add("%s", l)
						case <-time.After(wd(5 * time.Second)):
							add("hang")
						}
						// only now (Y has finished) is it safe to take the hook away again
						r.SetPostChangeHook(nil)
					}
					return
				}
				if s.Gap != nil && s.Kind == "flush" {
					// a Flush with a second writer let in at its first notification: the recording hook
					// stays registered (the notifications are the subject), and the second writer's
					// operation is started from inside the hook call
					var once, yInside atomic.Bool
					yDone := make(chan string, 1)
					r.SetPostChangeHook(func(ot constants.OpType, ts int64, ni string, e ygot.ValidatedGoStruct) {
						h.fn(ot, ts, ni, e)
						if once.Swap(true) {
							// a later notification of the same Flush: has the second writer's
							// operation returned meanwhile? Then it ran inside the Flush
							select {
							case l := <-yDone:
								yDone <- l
								yInside.Store(true)
							default:
							}
							return
						}
						go func() {
							defer func() {
								if p := recover(); p != nil {
									yDone <- fmt.Sprintf("crash %s %s", Describe(s.Gap.Op, s.Gap.Cls).Enc(), S(fmt.Sprint(p)))
								}
							}()
							yDone <- runOp(*s.Gap)
						}()
						select {
						case l := <-yDone:
							yDone <- l
						case <-time.After(25 * time.Millisecond):
						}
					})
					nis := []string{}
					for _, n := range s.NIs {
						if _, ok := r.NetworkInstanceRIB(n); ok {
							nis = append(nis, n)
						}
					}
					err := r.Flush(nis)
					// the second writer's operation is written down where it was acknowledged: before
					// the Flush if it had already returned when the Flush did (it ran inside it)
					if yInside.Load() {
						l := <-yDone
						add("%s", l)
						add("rib.flush %s => %s", LS(nis), B(err == nil))
						r.SetPostChangeHook(h.fn)
						return
					}
					add("rib.flush %s => %s", LS(nis), B(err == nil))
					if !once.Load() {
						add("%s", runOp(*s.Gap))
					} else {
						select {
						case l := <-yDone:
							add("%s", l)
						case <-time.After(wd(5 * time.Second)):
							add("hang")
						}
					}
					r.SetPostChangeHook(h.fn)
					return
				}
				switch s.Kind {
				case "sethook":
					r.SetPostChangeHook(h.fn)
					add("rib.sethook")
				case "addni":
					err := r.AddNetworkInstance(s.NI)
					add("rib.addni %s => %s", S(s.NI), B(err == nil))
				case "flush":
					nis := []string{}
					for _, n := range s.NIs {
						if _, ok := r.NetworkInstanceRIB(n); ok {
							nis = append(nis, n)
						}
					}
					err := r.Flush(nis)
					add("rib.flush %s => %s", LS(nis), B(err == nil))
				case "add":
					m := Describe(s.Op, s.Cls)
					oks, fails, err := r.AddEntry(s.Op.GetNetworkInstance(), s.Op)
					add("rib.add %s => %s %s %s", m.Enc(), L(resIDs(oks)), L(resIDs(fails)), B(err != nil))
				case "del":
					m := Describe(s.Op, s.Cls)
					oks, fails, err := r.DeleteEntry(s.Op.GetNetworkInstance(), s.Op)
					add("rib.del %s => %s %s %s", m.Enc(), L(resIDs(oks)), L(resIDs(fails)), B(err != nil))
				}
			}()
		}()
		hung := false
		select {
		case <-stepDone:
		case <-time.After(wd(20 * time.Second)):
			noteIfWedged()
			hung = true
		}
		if hung {
			t.Add("hang")
			break
		}
		lmu.Lock()
		for _, l := range lines {
			t.Add("%s", l)
		}
		lmu.Unlock()
		if crashed != "" {
			// a panic may leave locks held: the history ends here
			if s.Op != nil {
				t.Add("crash %s %s", Describe(s.Op, s.Cls).Enc(), S(crashed))
			} else {
				t.Add("crash - %s", S(crashed))
			}
			break
		}
		if s.Burst {
			continue
		}
		if err := ObsRIB(t, r); err != nil {
			if errors.Is(err, errHang) {
				break
			}
			return t, err
		}
		evs := h.drain()
		line := fmt.Sprintf("obs.hooks %d", len(evs))
		for _, e := range evs {
			line += " | " + e
		}
		t.Add("%s", line)
		if cfg.Resolved {
			revs := rr.drain()
			line := fmt.Sprintf("obs.resolved %d", len(revs))
			for _, e := range revs {
				line += " | " + e
			}
			t.Add("%s", line)
		}
	}
	if cfg.Resolved {
		t.Add("obs.resolved.stable %s", B(rr.stable()))
	}
	t.Add("end")
	return t, nil
}
