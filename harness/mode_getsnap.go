package main

// getsnap: a Get whose reader is slow while the primary deletes (or replaces) what is being
// streamed. C07: the stream is "one AFTEntry for each installed entry of that scope and nothing
// else" — of one state of the table, whichever side of the deletes it is, never a mixture.

import (
	"fmt"
	"time"

	aftpb "github.com/openconfig/gribi/v1/proto/gribi_aft"
	spb "github.com/openconfig/gribi/v1/proto/service"
)

func getsnapCase(seed uint64, idx int) *CaseSpec {
	name := fmt.Sprintf("getsnap/%d/%d", seed, idx)
	run := func(keep []int) (*Trace, error) {
		r := rngFor(seed, idx)
		t := &Trace{}
		t.Add("begin %s", name)
		cfg := &SrvCfg{Fwd: true, VRFs: []string{"VRF1"}, Default: "DEFAULT"}
		h, err := NewSrvH(cfg)
		if err != nil {
			return t, err
		}
		t.Add("srv.new %s fwd=1 hook=0 %s", S(cfg.Default), LS(cfg.VRFs))
		fail := func(msg string) (*Trace, error) {
			t.Add("conc.result 0 %s 0", S(msg))
			t.Add("end")
			return t, nil
		}
		if err := h.Connect(1); err != nil {
			return t, err
		}
		if o := h.Send(1, &spb.ModifyRequest{Params: &spb.SessionParameters{Redundancy: spb.SessionParameters_SINGLE_PRIMARY, Persistence: spb.SessionParameters_PRESERVE}}); o.Ended || o.Hang {
			return fail("getsnap: negotiation failed")
		}
		id := &spb.Uint128{Low: 1 + uint64(r.IntN(5))}
		if o := h.Send(1, &spb.ModifyRequest{ElectionId: id}); o.Ended || o.Hang {
			return fail("getsnap: election failed")
		}
		ni := []string{"DEFAULT", "VRF1"}[r.IntN(2)]
		nNH := 8 + r.IntN(30)
		after := 1 + r.IntN(3) // the reader stalls after this many responses
		mkNH := func(opid, idx uint64, ty spb.AFTOperation_Operation) *spb.AFTOperation {
			return &spb.AFTOperation{Id: opid, NetworkInstance: ni, Op: ty, ElectionId: id,
				Entry: &spb.AFTOperation_NextHop{NextHop: &aftpb.Afts_NextHopKey{Index: idx, NextHop: &aftpb.Afts_NextHop{IpAddress: sv("10.9.0.1")}}}}
		}
		adds, dels := []*spb.AFTOperation{}, []*spb.AFTOperation{}
		for i := uint64(0); i < uint64(nNH); i++ {
			adds = append(adds, mkNH(1+i, 1000+i, spb.AFTOperation_ADD))
			dels = append(dels, mkNH(1001+i, 1000+i, spb.AFTOperation_DELETE))
		}
		if o := h.Send(1, &spb.ModifyRequest{Operation: adds}); o.Hang || o.Ended {
			return fail("getsnap: the entries could not be programmed")
		}
		aftT := []spb.AFTType{spb.AFTType_NEXTHOP, spb.AFTType_ALL}[r.IntN(2)]
		stalled, resume := h.GetPaused(&spb.GetRequest{NetworkInstance: &spb.GetRequest_Name{Name: ni}, Aft: aftT}, after)
		delDone := make(chan MsgOutcome, 1)
		go func() { delDone <- h.Send(1, &spb.ModifyRequest{Operation: dels}) }()
		if stalled {
			time.Sleep(20 * time.Millisecond)
		}
		resps, gerr, ghang := resume()
		od := <-delDone
		got := 0
		for _, rsp := range resps {
			for _, e := range rsp.GetEntry() {
				if nh := e.GetNextHop(); nh != nil && nh.GetIndex() >= 1000 {
					got++
				}
			}
		}
		switch {
		case ghang || od.Hang:
			return fail("getsnap: a Get or the deletes overlapping it were not answered (hang)")
		case gerr != nil || od.Ended:
			return fail(fmt.Sprintf("getsnap: unexpected error (%v / %v)", gerr, od.Err))
		case stalled && got != nNH && got != 0:
			return fail(fmt.Sprintf("getsnap: a Get of %s that overlapped the deletion of its %d next-hops returned %d of them: not a state the table ever had", ni, nNH, got))
		}
		t.Add("conc.result 1 %s 0", S("ok"))
		t.Add("end")
		return t, nil
	}
	return &CaseSpec{Name: name, N: 1, Run: run, Atomic: true, Inputs: func() []string { return []string{name} }}
}

func init() {
	modes["getsnap"] = &Mode{
		Name:   "getsnap",
		Atomic: true,
		Gen:    func(seed uint64, idx int, tier string) *CaseSpec { return getsnapCase(seed, idx) },
		Count: func(tier string) int {
			if tier == "thorough" {
				return 60
			}
			return 12
		},
		Corpus:   func() []*CaseSpec { return nil },
		Required: []string{"conc.ok"},
	}
}
