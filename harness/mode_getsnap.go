package main

// getsnap: a Get whose reader is slow while the primary deletes (or replaces) what is being
// streamed. C07: the stream is "one AFTEntry for each installed entry of that scope and nothing
// else" — of one state of the table, whichever side of the deletes it is, never a mixture.

import (
	"fmt"
	"sort"
	"strings"
	"time"

	aftpb "github.com/openconfig/gribi/v1/proto/gribi_aft"
	spb "github.com/openconfig/gribi/v1/proto/service"
)

func getsnapCase(seed uint64, idx int) *CaseSpec {
	name := fmt.Sprintf("getsnap/%d/%d", seed, idx)
	run := func(keep []int) (*Trace, error) {
		r := rngFor(seed, idx)
		t := &Trace{}
		t.Add("begin %s", name)
		cfg := &SrvCfg{Fwd: true, VRFs: []string{"VRF1"}, Default: "DEFAULT"}
		h, err := NewSrvH(cfg)
		if err != nil {
			return t, err
		}
		t.Add("srv.new %s fwd=1 hook=0 %s", S(cfg.Default), LS(cfg.VRFs))
		fail := func(msg string) (*Trace, error) {
			t.Add("conc.result 0 %s 0", S(msg))
			t.Add("end")
			return t, nil
		}
		if err := h.Connect(1); err != nil {
			return t, err
		}
		if o := h.Send(1, &spb.ModifyRequest{Params: &spb.SessionParameters{Redundancy: spb.SessionParameters_SINGLE_PRIMARY, Persistence: spb.SessionParameters_PRESERVE}}); o.Ended || o.Hang {
			return fail("getsnap: negotiation failed")
		}
		id := &spb.Uint128{Low: 1 + uint64(r.IntN(5))}
		if o := h.Send(1, &spb.ModifyRequest{ElectionId: id}); o.Ended || o.Hang {
			return fail("getsnap: election failed")
		}
		ni := []string{"DEFAULT", "VRF1"}[r.IntN(2)]
		if idx%2 == 1 {
			return getsnapChain(t, h, cfg, r.IntN(4), ni, id, fail)
		}
		nNH := 8 + r.IntN(30)
		after := 1 + r.IntN(3) // the reader stalls after this many responses
		mkNH := func(opid, idx uint64, ty spb.AFTOperation_Operation) *spb.AFTOperation {
			return &spb.AFTOperation{Id: opid, NetworkInstance: ni, Op: ty, ElectionId: id,
				Entry: &spb.AFTOperation_NextHop{NextHop: &aftpb.Afts_NextHopKey{Index: idx, NextHop: &aftpb.Afts_NextHop{IpAddress: sv("10.9.0.1")}}}}
		}
		adds, dels := []*spb.AFTOperation{}, []*spb.AFTOperation{}
		for i := uint64(0); i < uint64(nNH); i++ {
			adds = append(adds, mkNH(1+i, 1000+i, spb.AFTOperation_ADD))
			dels = append(dels, mkNH(1001+i, 1000+i, spb.AFTOperation_DELETE))
		}
		if o := h.Send(1, &spb.ModifyRequest{Operation: adds}); o.Hang || o.Ended {
			return fail("getsnap: the entries could not be programmed")
		}
		aftT := []spb.AFTType{spb.AFTType_NEXTHOP, spb.AFTType_ALL}[r.IntN(2)]
		if idx%12 == 4 {
			// a slow reader: it takes one response, pauses for a few seconds, then reads on; nothing
			// else happens meanwhile. It must still get every entry (a Get may be slow, not short)
			stalled, resume := h.GetPaused(&spb.GetRequest{NetworkInstance: &spb.GetRequest_Name{Name: ni}, Aft: aftT}, after)
			pause := 2500 * time.Millisecond
			if stalled {
				time.Sleep(pause)
			}
			resps, gerr, ghang := resume()
			got := 0
			for _, rsp := range resps {
				for _, e := range rsp.GetEntry() {
					if nh := e.GetNextHop(); nh != nil && nh.GetIndex() >= 1000 {
						got++
					}
				}
			}
			switch {
			case ghang:
				return fail("getsnap: a Get whose reader paused was not answered (hang)")
			case gerr != nil:
				return fail(fmt.Sprintf("getsnap: a Get whose reader paused for %v ended with an error: %v", pause, gerr))
			case got != nNH:
				return fail(fmt.Sprintf("getsnap: a Get of %s whose reader paused for %v ended OK with %d of the %d installed next-hops: not a state the table ever had", ni, pause, got, nNH))
			}
			t.Add("conc.result 1 %s 0", S("ok"))
			t.Add("end")
			return t, nil
		}
		stalled, resume := h.GetPaused(&spb.GetRequest{NetworkInstance: &spb.GetRequest_Name{Name: ni}, Aft: aftT}, after)
		delDone := make(chan MsgOutcome, 1)
		go func() { delDone <- h.Send(1, &spb.ModifyRequest{Operation: dels}) }()
		if stalled {
			time.Sleep(20 * time.Millisecond)
		}
		resps, gerr, ghang := resume()
		od := <-delDone
		got := 0
		for _, rsp := range resps {
			for _, e := range rsp.GetEntry() {
				if nh := e.GetNextHop(); nh != nil && nh.GetIndex() >= 1000 {
					got++
				}
			}
		}
		switch {
		case ghang || od.Hang:
			return fail("getsnap: a Get or the deletes overlapping it were not answered (hang)")
		case gerr != nil || od.Ended:
			return fail(fmt.Sprintf("getsnap: unexpected error (%v / %v)", gerr, od.Err))
		case stalled && got != nNH && got != 0:
			return fail(fmt.Sprintf("getsnap: a Get of %s that overlapped the deletion of its %d next-hops returned %d of them: not a state the table ever had", ni, nNH, got))
		}
		t.Add("conc.result 1 %s 0", S("ok"))
		t.Add("end")
		return t, nil
	}
	return &CaseSpec{Name: name, N: 1, Run: run, Atomic: true, Inputs: func() []string { return []string{name} }}
}

// getsnapChain: the reader stalls in the first table while the primary re-points a whole chain
// (prefix -> group -> next-hop) in one message, so that *every* table changes. The streamed
// entries must be the contents of the instance at one moment: one of the states a twin server goes
// through when it is given the same operations one by one (with a complete, undisturbed Get after
// each). A Get that takes each table at a different moment returns a mixture none of them equals.
func getsnapChain(t *Trace, h *SrvH, cfg *SrvCfg, variant int, ni string, id *spb.Uint128, fail func(string) (*Trace, error)) (*Trace, error) {
	twin, err := NewSrvH(cfg)
	if err != nil {
		return t, err
	}
	nh := func(opid, idx uint64, ty spb.AFTOperation_Operation, ip string) *spb.AFTOperation {
		return &spb.AFTOperation{Id: opid, NetworkInstance: ni, Op: ty, ElectionId: id,
			Entry: &spb.AFTOperation_NextHop{NextHop: &aftpb.Afts_NextHopKey{Index: idx, NextHop: &aftpb.Afts_NextHop{IpAddress: sv(ip)}}}}
	}
	nhg := func(opid, gid, member uint64, ty spb.AFTOperation_Operation) *spb.AFTOperation {
		return &spb.AFTOperation{Id: opid, NetworkInstance: ni, Op: ty, ElectionId: id,
			Entry: &spb.AFTOperation_NextHopGroup{NextHopGroup: &aftpb.Afts_NextHopGroupKey{Id: gid, NextHopGroup: &aftpb.Afts_NextHopGroup{
				NextHop: []*aftpb.Afts_NextHopGroup_NextHopKey{{Index: member, NextHop: &aftpb.Afts_NextHopGroup_NextHop{Weight: uv(1)}}}}}}}
	}
	// three entries in the first table the Get streams, so that the reader can be stalled inside it
	top := func(opid, gid uint64, n int, ty spb.AFTOperation_Operation) *spb.AFTOperation {
		op := &spb.AFTOperation{Id: opid, NetworkInstance: ni, Op: ty, ElectionId: id}
		switch variant % 3 {
		case 0:
			op.Entry = &spb.AFTOperation_Ipv4{Ipv4: &aftpb.Afts_Ipv4EntryKey{Prefix: fmt.Sprintf("198.51.%d.0/24", 100+n), Ipv4Entry: &aftpb.Afts_Ipv4Entry{NextHopGroup: uv(gid)}}}
		case 1:
			op.Entry = &spb.AFTOperation_Ipv6{Ipv6: &aftpb.Afts_Ipv6EntryKey{Prefix: fmt.Sprintf("2001:db8:7%d::/48", n), Ipv6Entry: &aftpb.Afts_Ipv6Entry{NextHopGroup: uv(gid)}}}
		default:
			op.Entry = &spb.AFTOperation_Mpls{Mpls: &aftpb.Afts_LabelEntryKey{Label: &aftpb.Afts_LabelEntryKey_LabelUint64{LabelUint64: uint64(777 + n)}, LabelEntry: &aftpb.Afts_LabelEntry{NextHopGroup: uv(gid)}}}
		}
		return op
	}
	setup := []*spb.AFTOperation{nh(1, 1000, spb.AFTOperation_ADD, "10.9.0.1"), nhg(2, 1000, 1000, spb.AFTOperation_ADD),
		top(3, 1000, 0, spb.AFTOperation_ADD), top(4, 1000, 1, spb.AFTOperation_ADD), top(5, 1000, 2, spb.AFTOperation_ADD)}
	change := []*spb.AFTOperation{
		nh(11, 1001, spb.AFTOperation_ADD, "10.9.0.2"), nhg(12, 1001, 1001, spb.AFTOperation_ADD),
		top(13, 1001, 0, spb.AFTOperation_ADD), top(14, 1001, 1, spb.AFTOperation_ADD), top(15, 1001, 2, spb.AFTOperation_ADD),
		nhg(16, 1000, 1000, spb.AFTOperation_DELETE), nh(17, 1000, spb.AFTOperation_DELETE, ""),
	}
	getAll := &spb.GetRequest{NetworkInstance: &spb.GetRequest_Name{Name: ni}, Aft: spb.AFTType_ALL}
	canon := func(resps []*spb.GetResponse) string {
		var l []string
		for _, rsp := range resps {
			for _, e := range rsp.GetEntry() {
				l = append(l, encAFTEntry(e))
			}
		}
		sort.Strings(l)
		return strings.Join(l, " | ")
	}
	prepare := func(x *SrvH) bool {
		if err := x.Connect(1); err != nil {
			return false
		}
		if o := x.Send(1, &spb.ModifyRequest{Params: &spb.SessionParameters{Redundancy: spb.SessionParameters_SINGLE_PRIMARY, Persistence: spb.SessionParameters_PRESERVE}}); o.Ended || o.Hang {
			return false
		}
		if o := x.Send(1, &spb.ModifyRequest{ElectionId: id}); o.Ended || o.Hang {
			return false
		}
		o := x.Send(1, &spb.ModifyRequest{Operation: setup})
		return !o.Ended && !o.Hang
	}
	// the session of h is connected already (negotiation and election done by the caller)
	if o := h.Send(1, &spb.ModifyRequest{Operation: setup}); o.Ended || o.Hang {
		return fail("getsnap: the chain could not be programmed")
	}
	if !prepare(twin) {
		return fail("getsnap: the twin server could not be prepared")
	}
	states := map[string]bool{}
	rs, gerr, gh := twin.Get(getAll, -1)
	if gerr != nil || gh {
		return fail("getsnap: Get on the twin failed")
	}
	states[canon(rs)] = true
	for _, op := range change {
		if o := twin.Send(1, &spb.ModifyRequest{Operation: []*spb.AFTOperation{op}}); o.Ended || o.Hang {
			return fail("getsnap: the twin refused an operation of the change")
		}
		rs, gerr, gh := twin.Get(getAll, -1)
		if gerr != nil || gh {
			return fail("getsnap: Get on the twin failed")
		}
		states[canon(rs)] = true
	}
	stalled, resume := h.GetPaused(getAll, 1)
	chDone := make(chan MsgOutcome, 1)
	go func() { chDone <- h.Send(1, &spb.ModifyRequest{Operation: change}) }()
	if stalled {
		time.Sleep(30 * time.Millisecond)
	}
	resps, gerr2, ghang := resume()
	oc := <-chDone
	switch {
	case ghang || oc.Hang:
		return fail("getsnap: a Get or the operations overlapping it were not answered (hang)")
	case gerr2 != nil || oc.Ended:
		return fail(fmt.Sprintf("getsnap: unexpected error (%v / %v)", gerr2, oc.Err))
	case !states[canon(resps)]:
		return fail(fmt.Sprintf("getsnap: a Get(ALL) of %s that overlapped the re-pointing of a chain returned a mixture of its tables at different moments: not a state the table ever had (got: %s)", ni, canon(resps)))
	}
	t.Add("conc.result 1 %s 0", S("ok"))
	t.Add("end")
	return t, nil
}

func init() {
	modes["getsnap"] = &Mode{
		Name:   "getsnap",
		Atomic: true,
		Gen:    func(seed uint64, idx int, tier string) *CaseSpec { return getsnapCase(seed, idx) },
		Count: func(tier string) int {
			if tier == "thorough" {
				return 60
			}
			return 12
		},
		Corpus:   func() []*CaseSpec { return nil },
		Required: []string{"conc.ok"},
	}
}
