package main

// eofdrain: a client that sends its parameters, an election id and one large batch and then
// half-closes at once, reading its responses slowly. Every operation the server received (and
// programmed) must have been answered on the stream before the RPC ends with status OK:
// C11 "answers every request", C06 "each accepted operation receives exactly one terminal result".

import (
	"context"
	"errors"
	"fmt"
	"io"
	"sync"
	"sync/atomic"
	"time"

	aftpb "github.com/openconfig/gribi/v1/proto/gribi_aft"
	spb "github.com/openconfig/gribi/v1/proto/service"
	"github.com/openconfig/gribigo/server"
	"google.golang.org/grpc"
	"google.golang.org/grpc/metadata"
)

type drainStream struct {
	grpc.ServerStream
	ctx   context.Context
	in    chan *spb.ModifyRequest
	mu    sync.Mutex
	out   []*spb.ModifyResponse
	delay time.Duration
	// pre: the time a Send needs before the message is on its way (encoding); a Send that has not
	// got that far when the handler returns is lost, as on a real stream whose status has been written
	pre      time.Duration
	returned atomic.Bool
	lost     atomic.Int64
}

func (f *drainStream) Context() context.Context { return f.ctx }
func (f *drainStream) Send(m *spb.ModifyResponse) error {
	if f.pre > 0 {
		time.Sleep(f.pre)
	}
	if f.returned.Load() {
		f.lost.Add(1)
		return errors.New("the handler has returned: the stream is closed")
	}
	f.mu.Lock()
	f.out = append(f.out, m)
	f.mu.Unlock()
	time.Sleep(f.delay) // a reader that is slower than the server
	return nil
}
func (f *drainStream) Recv() (*spb.ModifyRequest, error) {
	m, ok := <-f.in
	if !ok {
		return nil, io.EOF
	}
	return m, nil
}
func (f *drainStream) SetHeader(metadata.MD) error  { return nil }
func (f *drainStream) SendHeader(metadata.MD) error { return nil }
func (f *drainStream) SetTrailer(metadata.MD)       {}

func eofdrainCase(seed uint64, idx int) *CaseSpec {
	name := fmt.Sprintf("eofdrain/%d/%d", seed, idx)
	run := func(keep []int) (*Trace, error) {
		r := rngFor(seed, idx)
		t := &Trace{}
		t.Add("begin %s", name)
		t.Add("srv.new %s fwd=1 hook=0 %s", S("DEFAULT"), LS([]string{}))
		fail := func(msg string) (*Trace, error) {
			t.Add("conc.result 0 %s 0", S(msg))
			t.Add("end")
			return t, nil
		}
		srv, err := server.New()
		if err != nil {
			return t, err
		}
		n := 40 + r.IntN(160)
		fib := r.IntN(2) == 0
		st := &drainStream{ctx: context.Background(), in: make(chan *spb.ModifyRequest, 8), delay: time.Duration(100+r.IntN(250)) * time.Microsecond}
		done := make(chan error, 1)
		if idx%2 == 1 {
			st.pre = time.Duration(50+r.IntN(400)) * time.Microsecond
		}
		go func() { err := srv.Modify(st); st.returned.Store(true); done <- err }()
		ack := spb.SessionParameters_RIB_ACK
		if fib {
			ack = spb.SessionParameters_RIB_AND_FIB_ACK
		}
		id := &spb.Uint128{Low: 7}
		st.in <- &spb.ModifyRequest{Params: &spb.SessionParameters{Redundancy: spb.SessionParameters_SINGLE_PRIMARY, Persistence: spb.SessionParameters_PRESERVE, AckType: ack}}
		st.in <- &spb.ModifyRequest{ElectionId: id}
		ops := []*spb.AFTOperation{}
		// every fourth case: two operations in three name no network instance (each is answered
		// FAILED, once, with its own id — many rejections in one request, back to back)
		badNI := idx%4 == 2
		for i := 1; i <= n; i++ {
			ni := "DEFAULT"
			if badNI && i%3 != 0 {
				ni = ""
			}
			ops = append(ops, &spb.AFTOperation{Id: uint64(i), NetworkInstance: ni, Op: spb.AFTOperation_ADD, ElectionId: id,
				Entry: &spb.AFTOperation_NextHop{NextHop: &aftpb.Afts_NextHopKey{Index: uint64(i), NextHop: &aftpb.Afts_NextHop{IpAddress: sv("10.0.0.1")}}}})
		}
		st.in <- &spb.ModifyRequest{Operation: ops}
		close(st.in) // half-close at once: nothing more will be sent, the answers are still awaited
		var rpcErr error
		select {
		case rpcErr = <-done:
		case <-time.After(wd(20 * time.Second)):
			return fail("eofdrain: the Modify RPC did not end after the client's half-close (hang)")
		}
		time.Sleep(5 * time.Millisecond)
		st.mu.Lock()
		got := map[uint64]map[spb.AFTResult_Status]int{}
		for _, m := range st.out {
			for _, res := range m.GetResult() {
				if got[res.GetId()] == nil {
					got[res.GetId()] = map[spb.AFTResult_Status]int{}
				}
				got[res.GetId()][res.GetStatus()]++
			}
		}
		st.mu.Unlock()
		missing, missingFib := 0, 0
		for i := 1; i <= n; i++ {
			if badNI && i%3 != 0 {
				if got[uint64(i)][spb.AFTResult_FAILED] != 1 || len(got[uint64(i)]) != 1 {
					missing++
				}
				continue
			}
			if got[uint64(i)][spb.AFTResult_RIB_PROGRAMMED] != 1 {
				missing++
			}
			if fib && got[uint64(i)][spb.AFTResult_FIB_PROGRAMMED] != 1 {
				missingFib++
			}
		}
		installed := 0
		if c, err := srv.VerifRIB().RIBContents(); err == nil {
			installed = len(c["DEFAULT"].GetAfts().NextHop)
		}
		if rpcErr == nil && (missing > 0 || missingFib > 0) {
			return fail(fmt.Sprintf("eofdrain: the server ended the Modify RPC with status OK without answering %d of the %d operations it had received (%d of them are installed; FIB acknowledgements missing: %d)", missing, n, installed, missingFib))
		}
		if rpcErr != nil {
			return fail(fmt.Sprintf("eofdrain: the Modify RPC of a client that half-closed after a valid batch ended with an error: %v", rpcErr))
		}
		t.Add("conc.result 1 %s 0", S("ok"))
		t.Add("end")
		return t, nil
	}
	return &CaseSpec{Name: name, N: 1, Run: run, Atomic: true, Inputs: func() []string { return []string{name} }}
}

func init() {
	modes["eofdrain"] = &Mode{
		Name:   "eofdrain",
		Atomic: true,
		Gen:    func(seed uint64, idx int, tier string) *CaseSpec { return eofdrainCase(seed, idx) },
		Count: func(tier string) int {
			if tier == "thorough" {
				return 40
			}
			return 8
		},
		Corpus:   func() []*CaseSpec { return nil },
		Required: []string{"conc.ok"},
	}
}
