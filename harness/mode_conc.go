package main

// Concurrent sessions against one real server (property C11; also the "schedules" half of C05):
// N Modify sessions announcing election ids and sending operations, Get readers and Flush
// callers run truly concurrently; a watchdog turns a deadlock into a finding; at quiescence the
// election state must be the maximum announced and held by a session that announced it, and the
// RIB invariants (counters = referrers, closure) must hold. Built with -race for C11, so that a
// data race ends the process (the supervisor then reports it with this case as the replay).

import (
	"errors"
	"fmt"
	"math/rand/v2"
	"os"
	"runtime"
	"strings"
	"sync"
	"time"

	aftpb "github.com/openconfig/gribi/v1/proto/gribi_aft"
	spb "github.com/openconfig/gribi/v1/proto/service"
)

func concCase(seed uint64, idx int, flush bool) *CaseSpec {
	name := fmt.Sprintf("conc/%d/%d", seed, idx)
	run := func(keep []int) (*Trace, error) {
		r := rngFor(seed, idx)
		t := &Trace{}
		t.Add("begin %s", name)
		cfg := &SrvCfg{Fwd: true, VRFs: []string{"VRF1"}, Default: "DEFAULT"}
		h, err := NewSrvH(cfg)
		if err != nil {
			return t, err
		}
		t.Add("srv.new %s fwd=1 hook=0 %s", S(cfg.Default), LS(cfg.VRFs))
		n := 2 + r.IntN(5)
		if idx%2 == 0 {
			n = 8 // election storm cases use many sessions
		}
		rounds := 3 + r.IntN(4)
		// negotiate one after the other (parameters must agree with every connected session)
		for c := 1; c <= n; c++ {
			if err := h.Connect(c); err != nil {
				return t, err
			}
			o := h.Send(c, &spb.ModifyRequest{Params: &spb.SessionParameters{Redundancy: spb.SessionParameters_SINGLE_PRIMARY, Persistence: spb.SessionParameters_PRESERVE}})
			if o.Ended || o.Hang {
				t.Add("conc.result 0 %s", S("negotiation failed"))
				t.Add("end")
				return t, nil
			}
		}
		// election storm: in every round all sessions announce distinct ids at the same moment;
		// after the round the server must hold the round's maximum, owned by its announcer
		stormRounds := 1500
		if idx%2 == 1 {
			stormRounds = 0
		}
		for round := 1; round <= stormRounds; round++ {
			perm := r.Perm(n)
			start := make(chan struct{})
			var sw sync.WaitGroup
			fail := make(chan string, n)
			var top *spb.Uint128
			topC := 0
			for c := 1; c <= n; c++ {
				id := &spb.Uint128{High: uint64(round), Low: uint64(1 + perm[c-1])}
				if top == nil || cmp128(id, top) > 0 {
					top, topC = id, c
				}
				sw.Add(1)
				go func(c int, id *spb.Uint128) {
					defer sw.Done()
					<-start
					resp, ok := h.SendLite(c, &spb.ModifyRequest{ElectionId: id})
					if !ok {
						fail <- fmt.Sprintf("session %d: announcement not answered", c)
						return
					}
					if e := resp.GetElectionId(); e == nil || cmp128(e, id) < 0 {
						fail <- fmt.Sprintf("session %d announced %s and was told %s", c, encElec(id), encElec(e))
					}
				}(c, id)
			}
			close(start)
			sw.Wait()
			select {
			case msg := <-fail:
				t.Add("conc.result 0 %s", S(msg))
				t.Add("end")
				return t, nil
			default:
			}
			id, master := verifElectionWD(h)
			mc := 0
			for c, u := range h.uuid {
				if u == master {
					mc = c
				}
			}
			if id == nil || cmp128(id, top) != 0 || mc != topC {
				t.Add("conc.result 0 %s", S(fmt.Sprintf("election id at quiescence is %s held by session %d, the maximum announced is %s by session %d (storm round %d)", encElec(id), mc, encElec(top), topC, round)))
				t.Add("end")
				return t, nil
			}
		}
		for c := 1; c <= n; c++ {
			h.sess[c].take()
		}
		// handover contention: the primary (session 1) has a long batch in flight that adds and
		// deletes one group over and over while session 2 takes over and sends the same kind of
		// batch: the two batches are programmed concurrently (the election is read once per batch)
		base := uint64(stormRounds + 1)
		{
			batch := func(c int, id *spb.Uint128) []*spb.AFTOperation {
				ops := []*spb.AFTOperation{}
				// the old primary's batch is long, so that the new primary's certainly overlaps it
				for j := 0; j < 640/c/c; j++ {
					g := uint64(7)
					op := &spb.AFTOperation{Id: uint64(c*1000000 + j), NetworkInstance: "DEFAULT", Op: spb.AFTOperation_ADD, ElectionId: id,
						Entry: &spb.AFTOperation_NextHopGroup{NextHopGroup: &aftpb.Afts_NextHopGroupKey{Id: g, NextHopGroup: &aftpb.Afts_NextHopGroup{NextHop: []*aftpb.Afts_NextHopGroup_NextHopKey{{Index: 9, NextHop: &aftpb.Afts_NextHopGroup_NextHop{Weight: uv(1)}}}}}}}
					if (j+c)%2 == 0 {
						op.Op = spb.AFTOperation_DELETE
					}
					ops = append(ops, op)
				}
				return ops
			}
			idA, idB := &spb.Uint128{High: base, Low: 1}, &spb.Uint128{High: base, Low: 2}
			o := h.Send(1, &spb.ModifyRequest{ElectionId: idA})
			if !o.Hang && !o.Ended {
				o = h.Send(1, &spb.ModifyRequest{Operation: []*spb.AFTOperation{{Id: 999999, NetworkInstance: "DEFAULT", Op: spb.AFTOperation_ADD, ElectionId: idA,
					Entry: &spb.AFTOperation_NextHop{NextHop: &aftpb.Afts_NextHopKey{Index: 9, NextHop: &aftpb.Afts_NextHop{IpAddress: sv("10.0.0.9")}}}}}})
			}
			var hw sync.WaitGroup
			var oA, oB MsgOutcome
			hw.Add(2)
			go func() { defer hw.Done(); oA = h.Send(1, &spb.ModifyRequest{Operation: batch(1, idA)}) }()
			go func() {
				defer hw.Done()
				// wait until the old primary's batch is being programmed
				for dl := time.Now().Add(5 * time.Second); time.Now().Before(dl); {
					f := h.sess[1]
					f.mu.Lock()
					started := len(f.out) > 0
					f.mu.Unlock()
					if started {
						break
					}
					runtime.Gosched()
				}
				oB = h.Send(2, &spb.ModifyRequest{ElectionId: idB})
				if !oB.Hang && !oB.Ended {
					oB = h.Send(2, &spb.ModifyRequest{Operation: batch(2, idB)})
				}
			}()
			hw.Wait()
			if os.Getenv("VERIF_DEBUG") != "" {
				cnt := func(o MsgOutcome) (ok, fail int) {
					for _, r := range o.Resps {
						for _, x := range r.GetResult() {
							if x.Status == spb.AFTResult_FAILED {
								if fail == 0 {
									fmt.Fprintf(os.Stderr, "first failure: %v\n", x)
								}
								fail++
							} else if x.Status == spb.AFTResult_FIB_PROGRAMMED || x.Status == spb.AFTResult_RIB_PROGRAMMED {
								ok++
							}
						}
					}
					return
				}
				a1, a2 := cnt(oA)
				b1, b2 := cnt(oB)
				fmt.Fprintf(os.Stderr, "handover: A ok=%d fail=%d; B ok=%d fail=%d resps=%d/%d\n", a1, a2, b1, b2, len(oA.Resps), len(oB.Resps))
			}
			if o.Hang || o.Ended || oA.Hang || oA.Ended || oB.Hang || oB.Ended {
				t.Add("conc.result 0 %s", S(fmt.Sprintf("handover phase: a request was not answered or the RPC ended (%v %v %v)", o.Err, oA.Err, oB.Err)))
				t.Add("end")
				return t, nil
			}
			// remove the group if it is still there: afterwards nothing refers to next-hop 9
			h.Send(2, &spb.ModifyRequest{Operation: []*spb.AFTOperation{{Id: 2999999, NetworkInstance: "DEFAULT", Op: spb.AFTOperation_DELETE, ElectionId: idB,
				Entry: &spb.AFTOperation_NextHopGroup{NextHopGroup: &aftpb.Afts_NextHopGroupKey{Id: 7, NextHopGroup: &aftpb.Afts_NextHopGroup{NextHop: []*aftpb.Afts_NextHopGroup_NextHopKey{{Index: 9, NextHop: &aftpb.Afts_NextHopGroup_NextHop{Weight: uv(1)}}}}}}}}})
			rc := h.S.VerifRIB().VerifRefCounts()["DEFAULT"]
			if rc != nil && rc.NextHop[9] != 0 {
				t.Add("conc.result 0 %s", S(fmt.Sprintf("handover phase: two overlapping batches added and deleted group 7; it is gone, yet next-hop 9's reference counter is %d", rc.NextHop[9])))
				t.Add("end")
				return t, nil
			}
			for c := 1; c <= n; c++ {
				h.sess[c].take()
			}
		}
		// a slow Get reader while the primary deletes what is being streamed: the Get must return
		// one state of the table (it holds the instance lock, so the deletes wait for it)
		{
			idB := &spb.Uint128{High: base, Low: 2}
			mkNH := func(opid, idx uint64, ty spb.AFTOperation_Operation) *spb.AFTOperation {
				return &spb.AFTOperation{Id: opid, NetworkInstance: "VRF1", Op: ty, ElectionId: idB,
					Entry: &spb.AFTOperation_NextHop{NextHop: &aftpb.Afts_NextHopKey{Index: idx, NextHop: &aftpb.Afts_NextHop{IpAddress: sv("10.9.0.1")}}}}
			}
			const nNH = 30
			adds, dels := []*spb.AFTOperation{}, []*spb.AFTOperation{}
			for i := uint64(0); i < nNH; i++ {
				adds = append(adds, mkNH(3000000+i, 1000+i, spb.AFTOperation_ADD))
				dels = append(dels, mkNH(3100000+i, 1000+i, spb.AFTOperation_DELETE))
			}
			o := h.Send(2, &spb.ModifyRequest{Operation: adds})
			if o.Hang || o.Ended {
				t.Add("conc.result 0 %s %s", S("slow-reader phase: the entries could not be programmed"), B(flush))
				t.Add("end")
				return t, nil
			}
			stalled, resume := h.GetPaused(&spb.GetRequest{NetworkInstance: &spb.GetRequest_Name{Name: "VRF1"}, Aft: spb.AFTType_NEXTHOP}, 1)
			delDone := make(chan MsgOutcome, 1)
			go func() { delDone <- h.Send(2, &spb.ModifyRequest{Operation: dels}) }()
			if stalled {
				time.Sleep(20 * time.Millisecond)
			}
			resps, gerr, ghang := resume()
			od := <-delDone
			got := 0
			for _, rsp := range resps {
				for _, e := range rsp.GetEntry() {
					if nh := e.GetNextHop(); nh != nil && nh.GetIndex() >= 1000 {
						got++
					}
				}
			}
			switch {
			case ghang || od.Hang:
				t.Add("conc.result 0 %s %s", S("slow-reader phase: a Get or the deletes overlapping it were not answered (hang)"), B(flush))
				t.Add("end")
				return t, nil
			case gerr != nil || od.Ended:
				t.Add("conc.result 0 %s %s", S(fmt.Sprintf("slow-reader phase: unexpected error (%v / %v)", gerr, od.Err)), B(flush))
				t.Add("end")
				return t, nil
			case stalled && got != nNH && got != 0:
				t.Add("conc.result 0 %s %s", S(fmt.Sprintf("slow-reader phase: a Get that overlapped the deletion of %d next-hops returned %d of them: not a state the table ever had", nNH, got)), B(flush))
				t.Add("end")
				return t, nil
			}
			for c := 1; c <= n; c++ {
				h.sess[c].take()
			}
		}
		// each session announces `rounds` strictly increasing ids of its own; all distinct
		type ann struct {
			c  int
			id *spb.Uint128
		}
		var mu sync.Mutex
		maxID := &spb.Uint128{}
		announced := map[string]int{}
		problems := []string{}
		var wg, aux sync.WaitGroup
		stop := make(chan struct{})
		seeds := make([]uint64, n+1)
		for c := range seeds {
			seeds[c] = r.Uint64()
		}
		for c := 1; c <= n; c++ {
			wg.Add(1)
			go func(c int) {
				defer wg.Done()
				rr := rand.New(rand.NewPCG(seeds[c], 7))
				for k := 1; k <= rounds; k++ {
					id := &spb.Uint128{High: base + uint64(k), Low: uint64(c)}
					if rr.IntN(3) == 0 {
						id = &spb.Uint128{High: base + uint64(k), Low: uint64(c) + (1 << 63)}
					}
					mu.Lock()
					announced[encElec(id)] = c
					if cmp128(id, maxID) > 0 {
						maxID = id
					}
					mu.Unlock()
					o := h.Send(c, &spb.ModifyRequest{ElectionId: id})
					if o.Hang {
						mu.Lock()
						problems = append(problems, fmt.Sprintf("session %d: announcement not answered (hang)", c))
						mu.Unlock()
						return
					}
					if o.Ended {
						mu.Lock()
						problems = append(problems, fmt.Sprintf("session %d: RPC ended on announcement: %v", c, o.Err))
						mu.Unlock()
						return
					}
					// the reply must not be lower than what this session just announced
					for _, resp := range o.Resps {
						if e := resp.GetElectionId(); e != nil && cmp128(e, id) < 0 {
							mu.Lock()
							problems = append(problems, fmt.Sprintf("session %d announced %s and was told %s", c, encElec(id), encElec(e)))
							mu.Unlock()
						}
					}
					// a few operations stamped with the id just announced
					ops := []*spb.AFTOperation{}
					for j := 0; j < 1+rr.IntN(3); j++ {
						op := &spb.AFTOperation{Id: uint64(c*100000 + k*100 + j), NetworkInstance: []string{"DEFAULT", "VRF1"}[rr.IntN(2)], Op: spb.AFTOperation_ADD, ElectionId: id}
						switch rr.IntN(3) {
						case 0:
							op.Entry = &spb.AFTOperation_NextHop{NextHop: &aftpb.Afts_NextHopKey{Index: uint64(1 + rr.IntN(3)), NextHop: &aftpb.Afts_NextHop{IpAddress: sv("10.0.0.1")}}}
						case 1:
							op.Entry = &spb.AFTOperation_NextHopGroup{NextHopGroup: &aftpb.Afts_NextHopGroupKey{Id: uint64(1 + rr.IntN(3)), NextHopGroup: &aftpb.Afts_NextHopGroup{NextHop: []*aftpb.Afts_NextHopGroup_NextHopKey{{Index: uint64(1 + rr.IntN(3)), NextHop: &aftpb.Afts_NextHopGroup_NextHop{Weight: uv(1)}}}}}}
						default:
							op.Entry = &spb.AFTOperation_Ipv4{Ipv4: &aftpb.Afts_Ipv4EntryKey{Prefix: []string{"1.0.0.0/8", "2.0.0.0/8"}[rr.IntN(2)], Ipv4Entry: &aftpb.Afts_Ipv4Entry{NextHopGroup: uv(uint64(1 + rr.IntN(3)))}}}
						}
						if rr.IntN(4) == 0 {
							op.Op = spb.AFTOperation_DELETE
						}
						ops = append(ops, op)
					}
					o = h.Send(c, &spb.ModifyRequest{Operation: ops})
					if o.Hang {
						mu.Lock()
						problems = append(problems, fmt.Sprintf("session %d: operations not answered (hang)", c))
						mu.Unlock()
						return
					}
					if o.Ended {
						// losing a race for the primary role is in-band (FAILED), never an RPC error
						mu.Lock()
						problems = append(problems, fmt.Sprintf("session %d: RPC ended on operations: %v", c, o.Err))
						mu.Unlock()
						return
					}
				}
			}(c)
		}
		// network instances are added while the traffic runs (they stay empty: what matters is that
		// the lookup every RPC makes and the registration of a new instance are ordered)
		aux.Add(1)
		go func() {
			defer aux.Done()
			for i := 0; i < 40; i++ {
				select {
				case <-stop:
					return
				default:
				}
				h.S.AddNetworkInstance(fmt.Sprintf("DYN%d", i))
				time.Sleep(500 * time.Microsecond)
			}
		}()
		// readers and flushers
		for g := 0; g < 2; g++ {
			aux.Add(1)
			go func() {
				defer aux.Done()
				for {
					select {
					case <-stop:
						return
					default:
					}
					_, _, hang := h.Get(&spb.GetRequest{NetworkInstance: &spb.GetRequest_All{All: &spb.Empty{}}, Aft: spb.AFTType_ALL}, -1)
					if hang {
						mu.Lock()
						problems = append(problems, "Get not answered (hang)")
						mu.Unlock()
						return
					}
					time.Sleep(50 * time.Microsecond)
				}
			}()
		}
		// new sessions keep connecting, negotiating and leaving while the others announce and modify
		aux.Add(1)
		go func() {
			defer aux.Done()
			for {
				select {
				case <-stop:
					return
				default:
				}
				f, err := h.ConnectDetached()
				if err != nil {
					mu.Lock()
					problems = append(problems, "a new session could not connect: "+err.Error())
					mu.Unlock()
					return
				}
				o := h.SendOn(f, &spb.ModifyRequest{Params: &spb.SessionParameters{Redundancy: spb.SessionParameters_SINGLE_PRIMARY, Persistence: spb.SessionParameters_PRESERVE}})
				if o.Hang {
					mu.Lock()
					problems = append(problems, "deadlock: a new session's parameters were not answered while other sessions were announcing")
					mu.Unlock()
					return
				}
				if !o.Ended {
					close(f.in)
					select {
					case <-f.done:
					case <-time.After(stepTO()):
						mu.Lock()
						problems = append(problems, "deadlock: a session could not leave")
						mu.Unlock()
						return
					}
				}
				time.Sleep(20 * time.Microsecond)
			}
		}()
		if flush {
			aux.Add(1)
			go func() {
				defer aux.Done()
				for i := 0; i < 3; i++ {
					select {
					case <-stop:
						return
					default:
					}
					_, _, hang := h.Flush(&spb.FlushRequest{NetworkInstance: &spb.FlushRequest_All{All: &spb.Empty{}}, Election: &spb.FlushRequest_Override{Override: &spb.Empty{}}})
					if hang {
						mu.Lock()
						problems = append(problems, "Flush not answered (hang)")
						mu.Unlock()
						return
					}
					time.Sleep(200 * time.Microsecond)
				}
			}()
		}
		// wait for the sessions (watchdog), then stop the readers and flushers
		waitWG := func(w *sync.WaitGroup, d time.Duration) bool {
			done := make(chan struct{})
			go func() { w.Wait(); close(done) }()
			select {
			case <-done:
				return true
			case <-time.After(wd(d)):
				noteIfWedged()
				return false
			}
		}
		if !waitWG(&wg, 30*time.Second) {
			mu.Lock()
			problems = append(problems, "deadlock: the concurrent sessions did not finish")
			mu.Unlock()
		}
		close(stop)
		if !waitWG(&aux, 30*time.Second) {
			mu.Lock()
			problems = append(problems, "deadlock: a Get or Flush caller did not finish")
			mu.Unlock()
		}
		// quiescent state
		id, master := verifElectionWD(h)
		mc := 0
		for c, u := range h.uuid {
			if u == master {
				mc = c
			}
		}
		mu.Lock()
		defer mu.Unlock()
		if len(problems) == 0 {
			if id == nil || cmp128(id, maxID) != 0 {
				problems = append(problems, fmt.Sprintf("election id at quiescence is %s, the maximum announced is %s", encElec(id), encElec(maxID)))
			} else if announced[encElec(id)] != mc {
				problems = append(problems, fmt.Sprintf("primary at quiescence is session %d, but %s was announced by session %d", mc, encElec(id), announced[encElec(id)]))
			}
		}
		if len(problems) > 0 {
			t.Add("conc.result 0 %s %s", S(problems[0]), B(flush))
		} else {
			t.Add("conc.result 1 %s %s", S(fmt.Sprintf("sessions=%d rounds=%d max=%s", n, rounds, encElec(maxID))), B(flush))
		}
		// RIB invariants on the final state (counters = referrers, closure unless flushed) — unless
		// the server is wedged: reading its state needs the very locks that are stuck, and the
		// finding has been reported already
		wedged := false
		for _, p := range problems {
			if strings.Contains(p, "hang") || strings.Contains(p, "deadlock") {
				wedged = true
			}
		}
		if !wedged {
			if err := ObsRIB(t, h.S.VerifRIB()); err != nil && !errors.Is(err, errHang) {
				return t, err
			} else if err == nil {
				for c := range h.sess {
					h.Close(c, "eof")
				}
			}
		}
		t.Add("end")
		return t, nil
	}
	return &CaseSpec{Name: name, N: 1, Run: run, Inputs: func() []string {
		return []string{name, "concurrent sessions announcing ids and sending operations, Get readers" + map[bool]string{true: ", Flush callers", false: ""}[flush]}
	}}
}

// concElectionDuringOp: an operation of the primary is held at the point where the RIB has
// changed and its result has not been handed back yet (the post-change hook), another session
// announces a higher election id meanwhile, the operation goes on. Whatever the server answers,
// at quiescence the entry is installed exactly if the operation was acknowledged as programmed.
func concElectionDuringOp() *CaseSpec {
	name := "conc/corpus/election-during-operation"
	run := func(keep []int) (*Trace, error) {
		t := &Trace{}
		t.Add("begin %s", name)
		cfg := &SrvCfg{Fwd: true, Hook: true, VRFs: []string{"VRF1"}, Default: "DEFAULT"}
		h, err := NewSrvH(cfg)
		if err != nil {
			return t, err
		}
		t.Add("srv.new %s fwd=1 hook=0 %s", S(cfg.Default), LS(cfg.VRFs))
		fail := func(msg string) (*Trace, error) {
			t.Add("conc.result 0 %s", S(msg))
			t.Add("end")
			return t, nil
		}
		for c := 1; c <= 2; c++ {
			if err := h.Connect(c); err != nil {
				return t, err
			}
			o := h.Send(c, &spb.ModifyRequest{Params: &spb.SessionParameters{Redundancy: spb.SessionParameters_SINGLE_PRIMARY, Persistence: spb.SessionParameters_PRESERVE}})
			if o.Ended || o.Hang {
				return fail("negotiation failed")
			}
		}
		idA, idB := &spb.Uint128{Low: 1}, &spb.Uint128{Low: 2}
		if o := h.Send(1, &spb.ModifyRequest{ElectionId: idA}); o.Ended || o.Hang {
			return fail("election-during-operation: the first announcement was not answered")
		}
		nh := func(id, idx uint64) *spb.ModifyRequest {
			return &spb.ModifyRequest{Operation: []*spb.AFTOperation{{Id: id, NetworkInstance: "DEFAULT", Op: spb.AFTOperation_ADD, ElectionId: idA,
				Entry: &spb.AFTOperation_NextHop{NextHop: &aftpb.Afts_NextHopKey{Index: idx, NextHop: &aftpb.Afts_NextHop{IpAddress: sv("10.0.0.1")}}}}}}
		}
		if o := h.Send(1, nh(1, 1)); o.Ended || o.Hang {
			return fail("election-during-operation: the first operation was not answered")
		}
		parked, release := make(chan struct{}), make(chan struct{})
		var once sync.Once
		h.hooks.mu.Lock()
		h.hooks.park = func() {
			once.Do(func() {
				close(parked)
				select {
				case <-release:
				case <-time.After(wd(3 * time.Second)):
				}
			})
		}
		h.hooks.mu.Unlock()
		outc := make(chan MsgOutcome, 1)
		go func() { outc <- h.Send(1, nh(2, 2)) }()
		select {
		case <-parked:
		case <-time.After(wd(3 * time.Second)):
			close(release)
			return fail("election-during-operation: the post-change hook was not called for an ADD that installs an entry")
		}
		// the other session announces a higher id while the operation is held
		_, answered := h.SendLite(2, &spb.ModifyRequest{ElectionId: idB})
		close(release)
		var o MsgOutcome
		select {
		case o = <-outc:
		case <-time.After(wd(5 * time.Second)):
			return fail("election-during-operation: the held operation was never answered (hang)")
		}
		if !answered {
			// the announcement had to wait for the operation: allowed; it is answered now or never
			if _, ok := h.SendLite(2, &spb.ModifyRequest{ElectionId: idB}); !ok {
				return fail("election-during-operation: the announcement of the other session was not answered")
			}
		}
		acked := false
		for _, r := range o.Resps {
			for _, x := range r.GetResult() {
				if x.GetId() == 2 && x.GetStatus() == spb.AFTResult_RIB_PROGRAMMED {
					acked = true
				}
			}
		}
		c, cerr := h.S.VerifRIB().RIBContents()
		if cerr != nil {
			return t, cerr
		}
		_, installed := c["DEFAULT"].GetAfts().NextHop[2]
		if installed != acked {
			return fail(fmt.Sprintf("election-during-operation: at quiescence next-hop 2 installed=%v but acknowledged as programmed=%v (its ADD overlapped another session's announcement of a higher election id)", installed, acked))
		}
		t.Add("conc.result 1 %s 0", S("election-during-operation"))
		t.Add("end")
		return t, nil
	}
	return &CaseSpec{Name: name, N: 1, Run: run, Inputs: func() []string { return []string{name} }}
}

func init() {
	modes["conc"] = &Mode{
		Name: "conc",
		Gen: func(seed uint64, idx int, tier string) *CaseSpec {
			return concCase(seed, idx, idx%3 == 0)
		},
		Count: func(tier string) int {
			if tier == "thorough" {
				return 300
			}
			return 24
		},
		Corpus:   func() []*CaseSpec { return []*CaseSpec{concElectionDuringOp()} },
		Required: []string{"conc.ok"},
		Serial:   true,
		Atomic:   true,
	}
	// "cut": a session whose client disappears part-way through a request leaves goroutines of its
	// RPC behind; what they still hold must not wedge the RPCs of other sessions (a deadlock that
	// needs the departed session and a later one)
	props["C11"] = &PropSpec{Mode: "conc", Extra: []string{"gap", "eofdrain", "cut"}, Diffs: []string{"conc", "refs", "hang", "crash", "add.", "del.", "ents", "pend"}, Monitors: []string{"c11", "c03", "c01", "c02"}}
}

// verifElectionWD reads the server's election state under a watchdog.
func verifElectionWD(h *SrvH) (*spb.Uint128, string) {
	type r struct {
		id *spb.Uint128
		m  string
	}
	c := make(chan r, 1)
	go func() { id, m := h.S.VerifElection(); c <- r{id, m} }()
	select {
	case x := <-c:
		return x.id, x.m
	case <-time.After(stepTO()):
		noteIfWedged()
		wdFired.Add(1)
		h.wedged = true
		return nil, "(hang)"
	}
}
