package main

// A scriptable spb.GRIBIClient stub: the real client.Client / fluent client run against it.
// Sent requests are recorded; responses and stream errors are pushed by the harness.

import (
	"context"
	"errors"
	"fmt"
	"io"
	"sort"
	"strings"
	"sync"
	"sync/atomic"
	"time"

	"google.golang.org/grpc"
	"google.golang.org/grpc/metadata"
	"google.golang.org/protobuf/proto"
	"google.golang.org/protobuf/reflect/protoreflect"

	spb "github.com/openconfig/gribi/v1/proto/service"
)

type recvItem struct {
	resp *spb.ModifyResponse
	err  error
}

type stubStream struct {
	grpc.ClientStream
	ctx    context.Context
	mu     sync.Mutex
	sent   []*spb.ModifyRequest
	atSend []string // rendering of each request at the moment it was sent
	// failSendAt >= 0: the Send with that index (0-based) and all later ones fail with sendErr
	failSendAt int
	sendErr    error
	recvCh     chan recvItem
	closed     chan struct{}
	closeOnce  sync.Once
	// gate, when non-nil, makes every Send wait for a token (to hold the sender)
	gate chan struct{}
	// recvCalls counts entries into Recv: the receiver is back waiting for the next message
	recvCalls atomic.Int64
	// recvReturns counts the items handed to the client by Recv
	recvReturns atomic.Int64
	// breakOnSendErr: once a Send has failed the stream is broken, as a gRPC stream is: Recv
	// returns the error too
	breakOnSendErr bool
	// recvLag: how long after the failed Send the receive side learns of it (the send side of a
	// gRPC stream can notice a failure first)
	recvLag        time.Duration
	broken         chan struct{}
	brokenOnce     sync.Once
	sendFailed     atomic.Bool
	recvReturnsErr atomic.Bool
}

func newStubStream(ctx context.Context) *stubStream {
	return &stubStream{ctx: ctx, failSendAt: -1, recvCh: make(chan recvItem, 1024), closed: make(chan struct{}), broken: make(chan struct{})}
}

func (s *stubStream) Send(m *spb.ModifyRequest) error {
	if s.gate != nil {
		select {
		case <-s.gate:
		case <-s.closed:
			return io.EOF
		}
	}
	s.mu.Lock()
	defer s.mu.Unlock()
	if s.failSendAt >= 0 && len(s.sent) >= s.failSendAt {
		s.sendFailed.Store(true)
		if s.breakOnSendErr {
			s.brokenOnce.Do(func() { close(s.broken) })
		}
		return s.sendErr
	}
	s.sent = append(s.sent, m)
	s.atSend = append(s.atSend, strings.Join(flatten(m), " "))
	return nil
}

func (s *stubStream) Recv() (*spb.ModifyResponse, error) {
	s.recvCalls.Add(1)
	select {
	case it := <-s.recvCh:
		s.recvReturns.Add(1)
		if it.err != nil {
			s.recvReturnsErr.Store(true)
		}
		return it.resp, it.err
	case <-s.broken:
		if s.recvLag > 0 {
			select {
			case <-time.After(s.recvLag):
			case <-s.ctx.Done():
			}
		}
		s.recvReturnsErr.Store(true)
		return nil, s.sendErr
	case <-s.closed:
		return nil, io.EOF
	case <-s.ctx.Done():
		return nil, s.ctx.Err()
	}
}

func (s *stubStream) CloseSend() error {
	s.closeOnce.Do(func() { close(s.closed) })
	return nil
}
func (s *stubStream) Header() (metadata.MD, error) { return nil, nil }
func (s *stubStream) Trailer() metadata.MD         { return nil }
func (s *stubStream) Context() context.Context     { return s.ctx }

func (s *stubStream) nSent() int {
	s.mu.Lock()
	defer s.mu.Unlock()
	return len(s.sent)
}

func (s *stubStream) waitSent(n int, d time.Duration) bool {
	deadline := time.Now().Add(d)
	for s.nSent() < n {
		if time.Now().After(deadline) {
			return false
		}
		time.Sleep(50 * time.Microsecond)
	}
	return true
}

type stubClient struct {
	spb.GRIBIClient
	mu      sync.Mutex
	streams []*stubStream
	// modifyErr, when set, makes Modify fail
	modifyErr error
	// the Get and Flush requests the stub was handed (it answers them with an error)
	gets    []*spb.GetRequest
	flushes []*spb.FlushRequest
}

func (c *stubClient) Modify(ctx context.Context, opts ...grpc.CallOption) (grpc.BidiStreamingClient[spb.ModifyRequest, spb.ModifyResponse], error) {
	if c.modifyErr != nil {
		return nil, c.modifyErr
	}
	c.mu.Lock()
	defer c.mu.Unlock()
	st := newStubStream(ctx)
	c.streams = append(c.streams, st)
	return st, nil
}

func (c *stubClient) Get(ctx context.Context, in *spb.GetRequest, opts ...grpc.CallOption) (grpc.ServerStreamingClient[spb.GetResponse], error) {
	c.mu.Lock()
	c.gets = append(c.gets, proto.Clone(in).(*spb.GetRequest))
	c.mu.Unlock()
	return nil, errors.New("stub: Get not supported")
}

func (c *stubClient) Flush(ctx context.Context, in *spb.FlushRequest, opts ...grpc.CallOption) (*spb.FlushResponse, error) {
	c.mu.Lock()
	c.flushes = append(c.flushes, proto.Clone(in).(*spb.FlushRequest))
	c.mu.Unlock()
	return nil, errors.New("stub: Flush not supported")
}

func (c *stubClient) last() *stubStream {
	c.mu.Lock()
	defer c.mu.Unlock()
	if len(c.streams) == 0 {
		return nil
	}
	return c.streams[len(c.streams)-1]
}

// ---- flattening of protobufs into (path, value) pairs; mirrored by Gribi/Model/Fluent.lean ----

// flatten renders m as sorted "path=value" strings: message-typed singular fields that are
// present yield path=<msg>; scalars are rendered when populated; repeated messages are
// addressed by position (path#n); repeated union messages (label stacks) become one list value.
func flatten(m proto.Message) []string {
	out := []string{}
	flattenInto(m.ProtoReflect(), "", &out)
	sort.Strings(out)
	return out
}

func scalarText(fd protoreflect.FieldDescriptor, v protoreflect.Value) string {
	switch fd.Kind() {
	case protoreflect.StringKind:
		return "\"" + v.String() + "\""
	case protoreflect.BytesKind:
		return "x" + fmt.Sprintf("%x", v.Bytes())
	case protoreflect.EnumKind:
		return fmt.Sprintf("e%d", v.Enum())
	case protoreflect.BoolKind:
		if v.Bool() {
			return "true"
		}
		return "false"
	default:
		return fmt.Sprint(v.Interface())
	}
}

func flattenInto(m protoreflect.Message, prefix string, out *[]string) {
	m.Range(func(fd protoreflect.FieldDescriptor, v protoreflect.Value) bool {
		path := prefix + string(fd.Name())
		switch {
		case fd.IsList():
			l := v.List()
			if fd.Kind() == protoreflect.MessageKind && strings.HasSuffix(string(fd.Message().Name()), "Union") {
				vals := []string{}
				for i := 0; i < l.Len(); i++ {
					em := l.Get(i).Message()
					x := "?"
					em.Range(func(efd protoreflect.FieldDescriptor, ev protoreflect.Value) bool {
						x = fmt.Sprint(ev.Interface())
						return true
					})
					if x == "?" {
						x = "0"
					}
					vals = append(vals, x)
				}
				*out = append(*out, path+"=["+strings.Join(vals, ", ")+"]")
			} else if fd.Kind() == protoreflect.MessageKind {
				for i := 0; i < l.Len(); i++ {
					q := fmt.Sprintf("%s#%d", path, i)
					*out = append(*out, q+"=<msg>")
					flattenInto(l.Get(i).Message(), q+".", out)
				}
			} else {
				vals := []string{}
				for i := 0; i < l.Len(); i++ {
					vals = append(vals, scalarText(fd, l.Get(i)))
				}
				*out = append(*out, path+"=["+strings.Join(vals, ", ")+"]")
			}
		case fd.Kind() == protoreflect.MessageKind || fd.Kind() == protoreflect.GroupKind:
			*out = append(*out, path+"=<msg>")
			flattenInto(v.Message(), path+".", out)
		default:
			*out = append(*out, path+"="+scalarText(fd, v))
		}
		return true
	})
}
