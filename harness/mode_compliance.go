package main

// "compliance" mode (property C19): the repository's own compliance suite is run
//   (a) against the conformant reference server, the whole suite in seeded random permutations on
//       ONE long-lived server (two servers: forward references allowed / disallowed), for several
//       (starting election id, VRF name) configurations — every test must pass in every position;
//   (b) against a catalogue of single-requirement faulty servers obtained by wrapping the
//       reference server — the tests written for the broken requirement must fail.
// The tests talk to an in-process gRPC server over bufconn through the fluent client's stub
// connection; each runs on a capturing testing.TB under a watchdog.

import (
	"context"
	"fmt"
	"net"
	"os"
	"os/exec"
	"runtime"
	"strings"
	"sync"
	"testing"
	"time"

	"google.golang.org/grpc"
	"google.golang.org/grpc/credentials/insecure"
	"google.golang.org/grpc/test/bufconn"
	"google.golang.org/protobuf/proto"

	"github.com/openconfig/gribigo/client"
	"github.com/openconfig/gribigo/compliance"
	"github.com/openconfig/gribigo/fluent"
	"github.com/openconfig/gribigo/server"

	spb "github.com/openconfig/gribi/v1/proto/service"
)

// ---- capturing TB ----

type cpTB struct {
	testing.TB
	mu      sync.Mutex
	failed  bool
	fatal   bool
	skipped bool
	msgs    []string
}

func (c *cpTB) note(s string) {
	c.mu.Lock()
	defer c.mu.Unlock()
	c.failed = true
	if len(c.msgs) < 4 {
		c.msgs = append(c.msgs, s)
	}
}
func (c *cpTB) Helper()                   {}
func (c *cpTB) Name() string              { return "captured" }
func (c *cpTB) Log(a ...any)              {}
func (c *cpTB) Logf(f string, a ...any)   {}
func (c *cpTB) Cleanup(func())            {}
func (c *cpTB) Failed() bool              { c.mu.Lock(); defer c.mu.Unlock(); return c.failed }
func (c *cpTB) Error(a ...any)            { c.note(fmt.Sprint(a...)) }
func (c *cpTB) Errorf(f string, a ...any) { c.note(fmt.Sprintf(f, a...)) }
func (c *cpTB) Fail()                     { c.note("Fail") }
func (c *cpTB) FailNow()                  { c.note("FailNow"); c.fatal = true; runtime.Goexit() }
func (c *cpTB) Fatal(a ...any)            { c.note(fmt.Sprint(a...)); c.fatal = true; runtime.Goexit() }
func (c *cpTB) Fatalf(f string, a ...any) {
	c.note(fmt.Sprintf(f, a...))
	c.fatal = true
	runtime.Goexit()
}
func (c *cpTB) Skip(a ...any)            { c.skipped = true; runtime.Goexit() }
func (c *cpTB) Skipf(f string, a ...any) { c.skipped = true; runtime.Goexit() }
func (c *cpTB) SkipNow()                 { c.skipped = true; runtime.Goexit() }

// ---- in-process server, optionally wrapped by a fault ----

type cpFault struct {
	name string
	// tests (ShortName substrings) written for the requirement this fault breaks
	targets []string
	modSend func(*spb.ModifyResponse) *spb.ModifyResponse // nil result = drop the response
	// modSendSt is modSend with access to the stream's state
	modSendSt func(*cpModStream, *spb.ModifyResponse) *spb.ModifyResponse
	// interceptReq may answer a request itself (returns true) instead of forwarding it
	interceptReq func(st *cpModStream, m *spb.ModifyRequest) bool
	modGet       func(*spb.GetResponse) *spb.GetResponse
	flush        func(inner *server.Server, ctx context.Context, req *spb.FlushRequest) (*spb.FlushResponse, error)
	// noFwd: the server rejects forward references instead of resolving them later
	noFwd bool
	// repeat: a target test that draws its order at random is run up to this many times and
	// counts as flagging the fault when one run fails (0 = once)
	repeat int
}

type cpService struct {
	spb.UnimplementedGRIBIServer
	inner *server.Server
	f     *cpFault
}

type cpModStream struct {
	spb.GRIBI_ModifyServer
	f       *cpFault
	inner   *server.Server
	nParams int
	// requests to hand to the server before reading the next one from the client
	queue []*spb.ModifyRequest
	// election-only responses to swallow (answers to announcements the wrapper injected)
	mu       sync.Mutex
	dropElec int
	// the election id this session announced last (for faults that misreport per session)
	lastAnnounced *spb.Uint128
	// operation ids the fault has decided to answer FAILED although the server programs them
	nack map[uint64]bool
}

func (s *cpModStream) Send(m *spb.ModifyResponse) error {
	s.mu.Lock()
	if s.dropElec > 0 && m.GetElectionId() != nil && len(m.GetResult()) == 0 {
		s.dropElec--
		s.mu.Unlock()
		return nil
	}
	s.mu.Unlock()
	if s.f != nil && s.f.modSend != nil {
		m = s.f.modSend(m)
		if m == nil {
			return nil
		}
	}
	if s.f != nil && s.f.modSendSt != nil {
		m = s.f.modSendSt(s, m)
		if m == nil {
			return nil
		}
	}
	return s.GRIBI_ModifyServer.Send(m)
}

func (s *cpModStream) Recv() (*spb.ModifyRequest, error) {
	for {
		if len(s.queue) > 0 {
			m := s.queue[0]
			s.queue = s.queue[1:]
			return m, nil
		}
		m, err := s.GRIBI_ModifyServer.Recv()
		if err != nil {
			return m, err
		}
		if s.f != nil && s.f.interceptReq != nil && s.f.interceptReq(s, m) {
			continue
		}
		return m, nil
	}
}

func (w *cpService) Modify(st spb.GRIBI_ModifyServer) error {
	return w.inner.Modify(&cpModStream{GRIBI_ModifyServer: st, f: w.f, inner: w.inner})
}

type cpGetStream struct {
	spb.GRIBI_GetServer
	f *cpFault
}

func (s *cpGetStream) Send(m *spb.GetResponse) error {
	if s.f != nil && s.f.modGet != nil {
		m = s.f.modGet(m)
		if m == nil {
			return nil
		}
	}
	return s.GRIBI_GetServer.Send(m)
}

func (w *cpService) Get(req *spb.GetRequest, st spb.GRIBI_GetServer) error {
	return w.inner.Get(req, &cpGetStream{GRIBI_GetServer: st, f: w.f})
}

func (w *cpService) Flush(ctx context.Context, req *spb.FlushRequest) (*spb.FlushResponse, error) {
	if w.f != nil && w.f.flush != nil {
		return w.f.flush(w.inner, ctx, req)
	}
	return w.inner.Flush(ctx, req)
}

type cpServer struct {
	inner *server.Server
	gs    *grpc.Server
	conn  *grpc.ClientConn
	stub  spb.GRIBIClient
}

func newCpServer(vrfs []string, fwd bool, f *cpFault) (*cpServer, error) {
	opts := []server.ServerOpt{server.WithVRFs(vrfs)}
	if !fwd {
		opts = append(opts, server.WithNoRIBForwardReferences())
	}
	inner, err := server.New(opts...)
	if err != nil {
		return nil, err
	}
	lis := bufconn.Listen(1 << 20)
	gs := grpc.NewServer()
	spb.RegisterGRIBIServer(gs, &cpService{inner: inner, f: f})
	go gs.Serve(lis)
	conn, err := grpc.NewClient("passthrough:///bufnet", grpc.WithContextDialer(func(ctx context.Context, _ string) (net.Conn, error) { return lis.DialContext(ctx) }), grpc.WithTransportCredentials(insecure.NewCredentials()))
	if err != nil {
		gs.Stop()
		return nil, err
	}
	return &cpServer{inner: inner, gs: gs, conn: conn, stub: spb.NewGRIBIClient(conn)}, nil
}

func (s *cpServer) stop() {
	s.conn.Close()
	s.gs.Stop()
}

// runCpTest runs one test of the suite against srv; "" = the verdict the suite expects.
func runCpTest(tt *compliance.TestSpec, srv *cpServer, limit time.Duration) string {
	c := fluent.NewClient()
	c.Connection().WithStub(srv.stub)
	sc := fluent.NewClient()
	sc.Connection().WithStub(srv.stub)
	tb := &cpTB{}
	done := make(chan struct{})
	go func() {
		defer close(done)
		defer func() {
			if p := recover(); p != nil {
				tb.note(fmt.Sprintf("panic: %v", p))
			}
		}()
		tt.In.Fn(c, tb, compliance.SecondClient(sc))
	}()
	select {
	case <-done:
	case <-time.After(wd(limit)):
		return "timeout"
	}
	stopped := make(chan struct{})
	go func() {
		defer close(stopped)
		defer func() { recover() }()
		st := &cpTB{}
		func() {
			d := make(chan struct{})
			go func() { defer close(d); c.Stop(st) }()
			<-d
		}()
		func() {
			d := make(chan struct{})
			go func() { defer close(d); sc.Stop(st) }()
			<-d
		}()
	}()
	select {
	case <-stopped:
	case <-time.After(wd(10 * time.Second)):
		return "stop-timeout"
	}
	msg := strings.Join(tb.msgs, " / ")
	switch {
	case tt.FatalMsg != "":
		if tb.fatal && strings.Contains(msg, tt.FatalMsg) {
			return ""
		}
		return "expected fatal " + tt.FatalMsg + ", got: " + msg
	case tt.ErrorMsg != "":
		if tb.failed && strings.Contains(msg, tt.ErrorMsg) {
			return ""
		}
		return "expected error " + tt.ErrorMsg + ", got: " + msg
	case tb.failed:
		if len(msg) > 300 {
			msg = msg[:300]
		}
		return msg
	}
	return ""
}

var cpMu sync.Mutex

type cpConfig struct {
	elecBase uint64
	vrf      string
	// dflt is the instance the suite is told to treat as the default one ("DEFAULT" is the
	// server's own default instance; any other name is configured on the server as one more VRF)
	dflt string
}

var cpConfigs = []cpConfig{{1, "NON-DEFAULT-VRF", "DEFAULT"}, {1 << 40, "VRF-X", "default"}, {1000, "NON-DEFAULT-VRF", "DEFAULT"}, {^uint64(0) - 100000, "a-vrf", "main"}}

// cpPermCase runs one permutation of the suite in a process of its own (the harness binary
// re-executed with the command "cpperm"): package-level state of the compliance, chk and fluent
// packages — the election-id counter, anything a helper caches — starts fresh for every permutation,
// as it does for a user who runs the suite, so a verdict that depends on which test came first in
// the process shows up as a difference between permutations.
func cpPermCase(seed uint64, idx int) *CaseSpec {
	name := fmt.Sprintf("compliance/perm/%d/%d", seed, idx)
	run := func(keep []int) (*Trace, error) {
		cpMu.Lock()
		defer cpMu.Unlock()
		ctx, cancel := context.WithTimeout(context.Background(), 20*time.Minute)
		defer cancel()
		cmd := exec.CommandContext(ctx, os.Args[0], "cpperm", fmt.Sprint(seed), fmt.Sprint(idx))
		cmd.Stderr = nil
		out, err := cmd.Output()
		t := &Trace{}
		for _, l := range strings.Split(string(out), "\n") {
			// the tests print to stdout too: keep the trace lines only
			if strings.HasPrefix(l, "begin ") || strings.HasPrefix(l, "cp.") || l == "end" || strings.HasPrefix(l, "crash ") || l == "hang" {
				t.Lines = append(t.Lines, l)
			}
		}
		if err != nil || len(t.Lines) == 0 || t.Lines[len(t.Lines)-1] != "end" {
			if len(t.Lines) == 0 {
				t.Add("begin %s", name)
			}
			t.Add("crash - %s", S(fmt.Sprintf("the process running the permutation ended abnormally: %v", err)))
			t.Add("end")
		}
		return t, nil
	}
	return &CaseSpec{Name: name, N: 1, Run: run, Atomic: true, Inputs: func() []string { return []string{name} }}
}

// cpPermBody is the permutation itself (run in the child process).
func cpPermBody(seed uint64, idx int) *CaseSpec {
	name := fmt.Sprintf("compliance/perm/%d/%d", seed, idx)
	run := func(keep []int) (*Trace, error) {
		cpMu.Lock()
		defer cpMu.Unlock()
		client.BusyLoopDelay = 100 * time.Millisecond // the library's default: the suite is not run under altered timing
		r := rngFor(seed, idx)
		cfg := cpConfigs[(int(seed)+idx)%len(cpConfigs)]
		t := &Trace{}
		t.Add("begin %s", name)
		compliance.SetElectionID(cfg.elecBase)
		compliance.SetNonDefaultVRFName(cfg.vrf)
		compliance.SetDefaultNetworkInstanceName(cfg.dflt)
		defer compliance.SetDefaultNetworkInstanceName(server.DefaultNetworkInstanceName)
		vrfs := []string{cfg.vrf}
		if cfg.dflt != server.DefaultNetworkInstanceName {
			vrfs = append(vrfs, cfg.dflt)
		}
		a, err := newCpServer(vrfs, true, nil)
		if err != nil {
			return t, err
		}
		defer a.stop()
		b, err := newCpServer(vrfs, false, nil)
		if err != nil {
			return t, err
		}
		defer b.stop()
		n := len(compliance.TestSuite)
		perm := r.Perm(n)
		if idx == 0 && seed%2 == 1 {
			for i := range perm {
				perm[i] = n - 1 - i // the suite backwards
			}
		}
		t.Add("cp.config %d %s %s %d", cfg.elecBase, S(cfg.vrf), S(cfg.dflt), n)
		prev := "-"
		for pos, i := range perm {
			tt := compliance.TestSuite[i]
			srv := a
			if tt.In.RequiresDisallowedForwardReferences {
				srv = b
			}
			res := runCpTest(tt, srv, 90*time.Second)
			v := "pass"
			if res != "" {
				v = "fail"
			}
			t.Add("cp.test %d %d %s %s => %s %s", pos, i, S(tt.In.ShortName), S(prev), v, S(res))
			prev = tt.In.ShortName
			if res == "timeout" || res == "stop-timeout" {
				break
			}
		}
		t.Add("end")
		return t, nil
	}
	return &CaseSpec{Name: name, N: 1, Run: run, Atomic: true, Inputs: func() []string { return []string{name} }}
}

// cpFirstCase: every test whose verdict involves election-id arithmetic, run ALONE as the first
// test of a fresh process state (the suite's counter at the library's default, 1) on a fresh
// conformant server: "irrespective of the order" includes being first, and "irrespective of the
// configured starting election id" includes the lowest one.
func cpFirstCase() *CaseSpec {
	name := "compliance/first"
	run := func(keep []int) (*Trace, error) {
		cpMu.Lock()
		defer cpMu.Unlock()
		client.BusyLoopDelay = 100 * time.Millisecond
		t := &Trace{}
		t.Add("begin %s", name)
		compliance.SetNonDefaultVRFName("NON-DEFAULT-VRF")
		compliance.SetDefaultNetworkInstanceName(server.DefaultNetworkInstanceName)
		t.Add("cp.config %d %s %s %d", 1, S("NON-DEFAULT-VRF"), S(server.DefaultNetworkInstanceName), 0)
		n := 0
		for i, tt := range compliance.TestSuite {
			nm := tt.In.ShortName
			if !(strings.Contains(nm, "lush") || strings.Contains(nm, "lection")) {
				continue
			}
			srv, err := newCpServer([]string{"NON-DEFAULT-VRF"}, !tt.In.RequiresDisallowedForwardReferences, nil)
			if err != nil {
				return t, err
			}
			compliance.SetElectionID(1)
			res := runCpTest(tt, srv, 60*time.Second)
			srv.stop()
			v := "pass"
			if res != "" {
				v = "fail"
				res = "as the first test with the default starting election id: " + res
			}
			t.Add("cp.test %d %d %s %s => %s %s", 0, i, S(nm), S("(nothing: first test, election id counter at 1)"), v, S(res))
			n++
		}
		t.Add("end")
		return t, nil
	}
	return &CaseSpec{Name: name, N: 1, Run: run, Atomic: true, Inputs: func() []string { return []string{name} }}
}

// cpTier: the tier of the run (the corpus is built without it)
var cpTier = "quick"

// cpLeaderProbes: cheap tests of different kinds that are run after the leading test
var cpLeaderProbes = []string{
	"Add IPv4 entry that can be programmed on the server - with RIB ACK",
	"Implicit replace IPv4 entry - RIB ACK",
	"Idempotent Delete entry - RIB ACK",
	"Election - Lower election ID from new client",
	"Flush from non-elected master returns error",
	"Get for installed chain of entries - FIB ACK",
}

// cpLeaderBody (child process): test `lead` of the registry runs first in this fresh process, on
// fresh conformant servers, then the probes run on the same servers.
func cpLeaderBody(lead int) *Trace {
	client.BusyLoopDelay = 100 * time.Millisecond
	t := &Trace{}
	a, err := newCpServer([]string{"NON-DEFAULT-VRF"}, true, nil)
	if err != nil {
		return t
	}
	defer a.stop()
	b, err := newCpServer([]string{"NON-DEFAULT-VRF"}, false, nil)
	if err != nil {
		return t
	}
	defer b.stop()
	order := []int{lead}
	for _, nm := range cpLeaderProbes {
		for i, tt := range compliance.TestSuite {
			if tt.In.ShortName == nm && i != lead {
				order = append(order, i)
			}
		}
	}
	prev := "(nothing: first test of a fresh process)"
	for pos, i := range order {
		tt := compliance.TestSuite[i]
		srv := a
		if tt.In.RequiresDisallowedForwardReferences {
			srv = b
		}
		res := runCpTest(tt, srv, 60*time.Second)
		v := "pass"
		if res != "" {
			v = "fail"
			res = fmt.Sprintf("in a fresh process led by '%s': %s", compliance.TestSuite[lead].In.ShortName, res)
		}
		t.Add("cp.test %d %d %s %s => %s %s", pos, i, S(tt.In.ShortName), S(prev), v, S(res))
		prev = tt.In.ShortName
		if res == "timeout" || res == "stop-timeout" {
			break
		}
	}
	return t
}

// cpLeadersCase: every test of the suite in turn as the first test of a fresh process (package
// state of compliance / chk / fluent untouched), followed by the probes; the children run in parallel.
func cpLeadersCase(tier string) *CaseSpec {
	name := "compliance/leaders"
	run := func(keep []int) (*Trace, error) {
		t := &Trace{}
		t.Add("begin %s", name)
		t.Add("cp.config %d %s %s %d", 1, S("NON-DEFAULT-VRF"), S(server.DefaultNetworkInstanceName), 0)
		n := len(compliance.TestSuite)
		outs := make([][]string, n)
		sem := make(chan struct{}, 8)
		var wg sync.WaitGroup
		for i := 0; i < n; i++ {
			nm := compliance.TestSuite[i].In.ShortName
			if strings.Contains(nm, "Benchmark") {
				continue
			}
			if tier != "thorough" && i%2 == 1 && !strings.Contains(nm, "replace") && !strings.Contains(nm, "Idempotent") && !strings.Contains(nm, "does not exist") {
				continue // quick: every second test, plus all the ones that check operation ids and details
			}
			wg.Add(1)
			go func(i int) {
				defer wg.Done()
				sem <- struct{}{}
				defer func() { <-sem }()
				ctx, cancel := context.WithTimeout(context.Background(), 5*time.Minute)
				defer cancel()
				out, err := exec.CommandContext(ctx, os.Args[0], "cpleader", fmt.Sprint(i)).Output()
				for _, l := range strings.Split(string(out), "\n") {
					if strings.HasPrefix(l, "cp.") {
						outs[i] = append(outs[i], l)
					}
				}
				if err != nil || len(outs[i]) == 0 {
					outs[i] = append(outs[i], fmt.Sprintf("cp.test 0 %d %s %s => fail %s", i, S(compliance.TestSuite[i].In.ShortName), S("-"), S(fmt.Sprintf("the process running the test first ended abnormally: %v", err))))
				}
			}(i)
		}
		wg.Wait()
		for _, ls := range outs {
			t.Lines = append(t.Lines, ls...)
		}
		t.Add("end")
		return t, nil
	}
	return &CaseSpec{Name: name, N: 1, Run: run, Atomic: true, Inputs: func() []string { return []string{name} }}
}

// ---- the fault catalogue ----

// cpInstalled reports whether the entry an operation names is installed on the server.
func cpInstalled(inner *server.Server, op *spb.AFTOperation) bool {
	c, err := inner.VerifRIB().RIBContents()
	if err != nil {
		return true
	}
	r := c[op.GetNetworkInstance()]
	if r == nil || r.Afts == nil {
		return false
	}
	switch v := op.Entry.(type) {
	case *spb.AFTOperation_Ipv4:
		_, ok := r.Afts.Ipv4Entry[v.Ipv4.GetPrefix()]
		return ok
	case *spb.AFTOperation_Ipv6:
		_, ok := r.Afts.Ipv6Entry[v.Ipv6.GetPrefix()]
		return ok
	case *spb.AFTOperation_NextHopGroup:
		_, ok := r.Afts.NextHopGroup[v.NextHopGroup.GetId()]
		return ok
	case *spb.AFTOperation_NextHop:
		_, ok := r.Afts.NextHop[v.NextHop.GetIndex()]
		return ok
	}
	return true
}

var cpBump struct {
	sync.Mutex
	hi uint64
}

func cpFaults() []*cpFault {
	return []*cpFault{
		{
			name: "omits-fib-acks",
			targets: []string{"Add IPv4 entry that can be programmed on the server - with FIB ACK", "Delete NHG entry successfully - FIB ACK",
				"Implicit replace NH entry - FIB ACK", "Add IPv6 entry that can be programmed on the server - with FIB ACK"},
			modSend: func(m *spb.ModifyResponse) *spb.ModifyResponse {
				if len(m.GetResult()) == 0 {
					return m
				}
				out := &spb.ModifyResponse{ElectionId: m.ElectionId, SessionParamsResult: m.SessionParamsResult}
				for _, r := range m.Result {
					if r.Status != spb.AFTResult_FIB_PROGRAMMED {
						out.Result = append(out.Result, r)
					}
				}
				if len(out.Result) == 0 {
					return nil
				}
				return out
			},
		},
		{
			name:    "misreports-election-id",
			targets: []string{"Modify RPC Connection with Election ID", "Election - Incrementing election ID is honoured, and older IDs are rejected", "Election - Decrementing election ID is ignored"},
			modSend: func(m *spb.ModifyResponse) *spb.ModifyResponse {
				if m.GetElectionId() == nil || len(m.GetResult()) != 0 {
					return m
				}
				e := m.GetElectionId()
				return &spb.ModifyResponse{ElectionId: &spb.Uint128{High: e.High + 7, Low: e.Low}}
			},
		},
		{
			// every announcement is answered with the announcer's own id instead of the highest
			// one the server has learnt: a client that announces a lower id is told it won
			name:    "answers-elections-with-the-announcers-own-id",
			targets: []string{"Election - Lower election ID from new client"},
			interceptReq: func(st *cpModStream, m *spb.ModifyRequest) bool {
				if e := m.GetElectionId(); e != nil {
					st.mu.Lock()
					st.lastAnnounced = e
					st.mu.Unlock()
				}
				return false
			},
			modSendSt: func(st *cpModStream, m *spb.ModifyResponse) *spb.ModifyResponse {
				if m.GetElectionId() == nil || len(m.GetResult()) != 0 {
					return m
				}
				st.mu.Lock()
				own := st.lastAnnounced
				st.mu.Unlock()
				if own == nil {
					return m
				}
				return &spb.ModifyResponse{ElectionId: own}
			},
		},
		{
			name:    "accepts-repeated-session-parameters",
			targets: []string{"Modify RPC Connection with repeated SessionParameters"},
			interceptReq: func(st *cpModStream, m *spb.ModifyRequest) bool {
				if m.GetParams() == nil {
					return false
				}
				st.nParams++
				if st.nParams == 1 {
					return false
				}
				st.GRIBI_ModifyServer.Send(&spb.ModifyResponse{SessionParamsResult: &spb.SessionParametersResult{Status: spb.SessionParametersResult_OK}})
				return true
			},
		},
		{
			name:    "get-drops-next-hops",
			targets: []string{"Get for installed NH - RIB ACK", "Get for installed chain of entries - RIB ACK", "Get for installed NH - FIB ACK"},
			modGet: func(m *spb.GetResponse) *spb.GetResponse {
				out := &spb.GetResponse{}
				for _, e := range m.GetEntry() {
					if e.GetNextHop() == nil {
						out.Entry = append(out.Entry, e)
					}
				}
				return out
			},
		},
		{
			name: "ignores-flush",
			targets: []string{"Flush of all entries in default NI by elected master", "Flush from client overriding election is honoured",
				"Flush to specific network instance is honoured"},
			flush: func(inner *server.Server, ctx context.Context, req *spb.FlushRequest) (*spb.FlushResponse, error) {
				return &spb.FlushResponse{Timestamp: time.Now().UnixNano(), Result: spb.FlushResponse_OK}, nil
			},
		},
		{
			// a server without server-side reordering: an entry that refers to something not yet
			// installed is answered FAILED instead of being held. The test written for it sends a
			// prefix, its group and its next-hop in a random order; five of the six orders contain
			// a forward reference (eight runs all drawing the sixth: 6e-7)
			name:    "rejects-forward-references",
			targets: []string{"Add IPv4 entries that are resolved by NHG and NH, in random order"},
			noFwd:   true,
			repeat:  8,
		},
		{
			// a server that reports FAILED for some of the entries of a large batch (every next-hop
			// whose index ends in 7): a test that programs many entries and checks their results
			// must notice, whichever of them it is
			name:    "nacks-some-next-hops-of-a-batch",
			targets: []string{"Benchmark Get for next-hops"},
			interceptReq: func(st *cpModStream, m *spb.ModifyRequest) bool {
				for _, op := range m.GetOperation() {
					if nh := op.GetNextHop(); nh != nil && op.GetOp() == spb.AFTOperation_ADD && nh.GetIndex()%10 == 7 {
						st.mu.Lock()
						if st.nack == nil {
							st.nack = map[uint64]bool{}
						}
						st.nack[op.GetId()] = true
						st.mu.Unlock()
					}
				}
				return false
			},
			modSendSt: func(st *cpModStream, m *spb.ModifyResponse) *spb.ModifyResponse {
				if len(m.GetResult()) == 0 {
					return m
				}
				out := proto.Clone(m).(*spb.ModifyResponse)
				st.mu.Lock()
				for _, r := range out.Result {
					if st.nack[r.GetId()] {
						r.Status = spb.AFTResult_FAILED
					}
				}
				st.mu.Unlock()
				return out
			},
		},
		{
			name:    "fails-idempotent-deletes",
			targets: []string{"Idempotent Delete entry - RIB ACK", "Idempotent Delete entry - FIB ACK"},
			interceptReq: func(st *cpModStream, m *spb.ModifyRequest) bool {
				ops := m.GetOperation()
				if len(ops) == 0 {
					return false
				}
				for _, op := range ops {
					if op.GetOp() != spb.AFTOperation_DELETE || cpInstalled(st.inner, op) {
						return false
					}
				}
				// every operation deletes something that is not there: a conformant server answers
				// success; this one answers FAILED
				for _, op := range ops {
					st.GRIBI_ModifyServer.Send(&spb.ModifyResponse{Result: []*spb.AFTResult{{Id: op.GetId(), Status: spb.AFTResult_FAILED}}})
				}
				return true
			},
		},
		{
			// a server without implicit replace for next-hops: an ADD of a next-hop that is
			// installed is answered FAILED and not applied
			name:    "fails-repeated-add-of-a-next-hop",
			targets: []string{"Implicit replace NH entry - RIB ACK", "Implicit replace NH entry - FIB ACK"},
			interceptReq: func(st *cpModStream, m *spb.ModifyRequest) bool {
				ops := m.GetOperation()
				if len(ops) == 0 {
					return false
				}
				for _, op := range ops {
					if op.GetOp() != spb.AFTOperation_ADD || op.GetNextHop() == nil || !cpInstalled(st.inner, op) {
						return false
					}
				}
				for _, op := range ops {
					st.GRIBI_ModifyServer.Send(&spb.ModifyResponse{Result: []*spb.AFTResult{{Id: op.GetId(), Status: spb.AFTResult_FAILED}}})
				}
				return true
			},
		},
		{
			name: "programs-non-primary-operations",
			targets: []string{"Election - Unannounced master operations are rejected",
				"Election - Incrementing election ID is honoured, and older IDs are rejected"},
			interceptReq: func(st *cpModStream, m *spb.ModifyRequest) bool {
				if len(m.GetOperation()) == 0 {
					return false
				}
				// whoever sends operations is made primary behind the scenes, so they get programmed
				cpBump.Lock()
				cpBump.hi++
				id := &spb.Uint128{High: 1 << 62, Low: cpBump.hi}
				cpBump.Unlock()
				cp := proto.Clone(m).(*spb.ModifyRequest)
				for _, op := range cp.Operation {
					op.ElectionId = id
				}
				st.mu.Lock()
				st.dropElec++
				st.mu.Unlock()
				st.queue = append(st.queue, &spb.ModifyRequest{ElectionId: id}, cp)
				return true
			},
		},
	}
}

func cpFaultCase(fi int, limit time.Duration) *CaseSpec {
	f := cpFaults()[fi]
	name := "compliance/fault/" + f.name
	run := func(keep []int) (*Trace, error) {
		cpMu.Lock()
		defer cpMu.Unlock()
		client.BusyLoopDelay = 100 * time.Millisecond
		t := &Trace{}
		t.Add("begin %s", name)
		compliance.SetElectionID(1)
		compliance.SetNonDefaultVRFName("NON-DEFAULT-VRF")
		compliance.SetDefaultNetworkInstanceName(server.DefaultNetworkInstanceName)
		for _, tt := range compliance.TestSuite {
			hit := false
			for _, s := range f.targets {
				if strings.Contains(tt.In.ShortName, s) {
					hit = true
				}
			}
			if !hit || tt.FatalMsg != "" || tt.ErrorMsg != "" {
				continue
			}
			res := ""
			for run := 0; run <= f.repeat; run++ {
				srv, err := newCpServer([]string{"NON-DEFAULT-VRF"}, !tt.In.RequiresDisallowedForwardReferences && !f.noFwd, f)
				if err != nil {
					return t, err
				}
				// a test that is still waiting for the faulty server after `limit` has not passed (the
				// suite's own timeout is a minute; the thorough tier waits for it)
				res = runCpTest(tt, srv, limit)
				srv.stop()
				if res != "" || f.repeat == 0 {
					break
				}
			}
			v := "pass"
			if res != "" {
				v = "fail"
			}
			t.Add("cp.fault %s %s => %s %s", S(f.name), S(tt.In.ShortName), v, S(res))
		}
		t.Add("end")
		return t, nil
	}
	return &CaseSpec{Name: name, N: 1, Run: run, Atomic: true, Inputs: func() []string { return []string{name} }}
}

func init() {
	modes["compliance"] = &Mode{
		Name: "compliance",
		Gen: func(seed uint64, idx int, tier string) *CaseSpec {
			cpTier = tier
			nf := len(cpFaults())
			if idx < nf {
				if tier == "thorough" {
					return cpFaultCase(idx, 70*time.Second)
				}
				return cpFaultCase(idx, 4*time.Second)
			}
			return cpPermCase(seed, idx-nf)
		},
		Count: func(tier string) int {
			if tier == "thorough" {
				return len(cpFaults()) + 20
			}
			return len(cpFaults()) + 3
		},
		Corpus:   func() []*CaseSpec { return []*CaseSpec{cpFirstCase(), cpLeadersCase(cpTier)} },
		Required: []string{"cp.pass", "cp.fault.flagged"},
		Serial:   true,
		Atomic:   true,
	}
	props["C19"] = &PropSpec{Mode: "compliance", Diffs: []string{"cp.", "hang", "crash"}, Monitors: []string{"c19"}}
}
