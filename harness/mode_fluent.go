package main

// Fluent builders and client (property C18): random programs of builder calls and client
// calls against the real fluent API with a recording stub; OpProto/EntryProto and every
// queued ModifyRequest are flattened and compared with the model, at queue time and again
// at the end of the program (aliasing shows up as a queued message that changed).

import (
	"context"
	"encoding/hex"
	"fmt"
	spb "github.com/openconfig/gribi/v1/proto/service"
	"math/rand/v2"
	"strings"
	"testing"
	"time"

	"github.com/openconfig/gribigo/fluent"

	aftpb "github.com/openconfig/gribi/v1/proto/gribi_aft"
	"google.golang.org/protobuf/proto"
)

// flB is one builder under test: e is the real builder, do applies one random call to it and
// returns the call's description for the trace.
type flB struct {
	kind string
	e    fluent.GRIBIEntry
	do   func(r *rand.Rand) string
}

var flNIs = []string{"DEFAULT", "VRF1", ""}

func u32s(r *rand.Rand) ([]uint32, []uint64) {
	a, b := []uint32{}, []uint64{}
	for i := r.IntN(4); i > 0; i-- {
		v := uint32(r.IntN(3) * 50)
		a = append(a, v)
		b = append(b, uint64(v))
	}
	return a, b
}

func newFlB(r *rand.Rand, kind string) *flB {
	elec := func(r *rand.Rand) (uint64, uint64) { return uint64(r.IntN(4)), uint64(r.IntN(2)) }
	meta := func(r *rand.Rand) []byte {
		md := []byte{}
		for i := r.IntN(3); i > 0; i-- {
			md = append(md, byte(r.IntN(256)))
		}
		return md
	}
	switch kind {
	case "v4":
		b := fluent.IPv4Entry()
		return &flB{kind: kind, e: b, do: func(r *rand.Rand) string {
			switch r.IntN(6) {
			case 0:
				p := []string{"1.0.0.0/8", "2.2.0.0/16"}[r.IntN(2)]
				b.WithPrefix(p)
				return "prefix " + S(p)
			case 1:
				n := flNIs[r.IntN(3)]
				b.WithNetworkInstance(n)
				return "ni " + S(n)
			case 2:
				g := uint64(r.IntN(4))
				b.WithNextHopGroup(g)
				return fmt.Sprintf("nhg %d", g)
			case 3:
				n := flNIs[r.IntN(3)]
				b.WithNextHopGroupNetworkInstance(n)
				return "nhgni " + S(n)
			case 4:
				md := meta(r)
				b.WithMetadata(md)
				return "meta " + S(hex.EncodeToString(md))
			default:
				lo, hi := elec(r)
				b.WithElectionID(lo, hi)
				return fmt.Sprintf("elec %d %d", lo, hi)
			}
		}}
	case "v6":
		b := fluent.IPv6Entry()
		return &flB{kind: kind, e: b, do: func(r *rand.Rand) string {
			switch r.IntN(6) {
			case 0:
				p := []string{"2001:db8::/32", "::/0"}[r.IntN(2)]
				b.WithPrefix(p)
				return "prefix " + S(p)
			case 1:
				n := flNIs[r.IntN(3)]
				b.WithNetworkInstance(n)
				return "ni " + S(n)
			case 2:
				g := uint64(r.IntN(4))
				b.WithNextHopGroup(g)
				return fmt.Sprintf("nhg %d", g)
			case 3:
				n := flNIs[r.IntN(3)]
				b.WithNextHopGroupNetworkInstance(n)
				return "nhgni " + S(n)
			case 4:
				md := meta(r)
				b.WithMetadata(md)
				return "meta " + S(hex.EncodeToString(md))
			default:
				lo, hi := elec(r)
				b.WithElectionID(lo, hi)
				return fmt.Sprintf("elec %d %d", lo, hi)
			}
		}}
	case "label":
		b := fluent.LabelEntry()
		return &flB{kind: kind, e: b, do: func(r *rand.Rand) string {
			switch r.IntN(5) {
			case 0:
				l := uint32(r.IntN(3) * 100)
				b.WithLabel(l)
				return fmt.Sprintf("label %d", l)
			case 1:
				n := flNIs[r.IntN(3)]
				b.WithNetworkInstance(n)
				return "ni " + S(n)
			case 2:
				g := uint64(r.IntN(4))
				b.WithNextHopGroup(g)
				return fmt.Sprintf("nhg %d", g)
			case 3:
				n := flNIs[r.IntN(3)]
				b.WithNextHopGroupNetworkInstance(n)
				return "nhgni " + S(n)
			default:
				a, l := u32s(r)
				b.WithPoppedLabelStack(a...)
				return "popped " + L(l)
			}
		}}
	case "nhg":
		b := fluent.NextHopGroupEntry()
		return &flB{kind: kind, e: b, do: func(r *rand.Rand) string {
			switch r.IntN(5) {
			case 0:
				i := uint64(r.IntN(4))
				b.WithID(i)
				return fmt.Sprintf("id %d", i)
			case 1:
				n := flNIs[r.IntN(3)]
				b.WithNetworkInstance(n)
				return "ni " + S(n)
			case 2:
				x := uint64(r.IntN(3))
				b.WithBackupNHG(x)
				return fmt.Sprintf("backup %d", x)
			case 3:
				i, w := uint64(r.IntN(3)), uint64(r.IntN(3))
				b.AddNextHop(i, w)
				return fmt.Sprintf("addnh %d %d", i, w)
			default:
				lo, hi := elec(r)
				b.WithElectionID(lo, hi)
				return fmt.Sprintf("elec %d %d", lo, hi)
			}
		}}
	default:
		b := fluent.NextHopEntry()
		return &flB{kind: "nh", e: b, do: func(r *rand.Rand) string {
			ips := []string{"10.0.0.1", "2001:db8::1", ""}
			switch r.IntN(14) {
			case 0:
				i := uint64(r.IntN(4))
				b.WithIndex(i)
				return fmt.Sprintf("index %d", i)
			case 1:
				n := flNIs[r.IntN(3)]
				b.WithNetworkInstance(n)
				return "ni " + S(n)
			case 2:
				a := ips[r.IntN(3)]
				b.WithIPAddress(a)
				return "ip " + S(a)
			case 3:
				n := []string{"eth0", "eth1"}[r.IntN(2)]
				b.WithInterfaceRef(n)
				return "ifref " + S(n)
			case 4:
				n := []string{"eth0", "eth1"}[r.IntN(2)]
				sub := uint64(r.IntN(3))
				b.WithSubinterfaceRef(n, sub)
				return fmt.Sprintf("subifref %s %d", S(n), sub)
			case 5:
				m := []string{"00:1a:11:00:00:01", ""}[r.IntN(2)]
				b.WithMacAddress(m)
				return "mac " + S(m)
			case 6:
				a, c := ips[r.IntN(3)], ips[r.IntN(3)]
				b.WithIPinIP(a, c)
				return fmt.Sprintf("ipinip %s %s", S(a), S(c))
			case 7:
				n := flNIs[r.IntN(3)]
				b.WithNextHopNetworkInstance(n)
				return "nhni " + S(n)
			case 8:
				b.WithPopTopLabel()
				return "poptop"
			case 9:
				a, l := u32s(r)
				b.WithPushedLabelStack(a...)
				return "pushed " + L(l)
			case 10:
				// one or two encapsulation headers, possibly the same header object twice
				parts := []string{}
				mk := func() (interface {
					EncapProto() *aftpb.Afts_NextHop_EncapHeader
				}, string) {
					if r.IntN(2) == 0 {
						ls := []uint64{}
						for i := r.IntN(3); i > 0; i-- {
							ls = append(ls, uint64(100+r.IntN(3)))
						}
						return fluent.MPLSEncapHeader().WithLabels(ls...), "mpls " + L(ls)
					}
					h := fluent.UDPV6EncapHeader()
					d := []string{"-", "-", "-", "-", "-", "-"}
					// calls in random order, some repeated: last write wins
					for i := r.IntN(7); i > 0; i-- {
						switch r.IntN(6) {
						case 0:
							v := uint64(r.IntN(3))
							h.WithDSCP(v)
							d[0] = fmt.Sprint(v)
						case 1:
							v := ips[r.IntN(3)]
							h.WithDstIP(v)
							d[1] = S(v)
						case 2:
							v := uint64(r.IntN(3))
							h.WithDstUDPPort(v)
							d[2] = fmt.Sprint(v)
						case 3:
							v := uint64(r.IntN(3))
							h.WithIPTTL(v)
							d[3] = fmt.Sprint(v)
						case 4:
							v := ips[r.IntN(3)]
							h.WithSrcIP(v)
							d[4] = S(v)
						default:
							v := uint64(r.IntN(3))
							h.WithSrcUDPPort(v)
							d[5] = fmt.Sprint(v)
						}
					}
					return h, "udp6 " + strings.Join(d, " ")
				}
				h1, s1 := mk()
				parts = append(parts, s1)
				switch r.IntN(3) {
				case 0:
					b.AddEncapHeader(h1)
				case 1:
					b.AddEncapHeader(h1, h1)
					parts = append(parts, s1)
				default:
					h2, s2 := mk()
					b.AddEncapHeader(h1, h2)
					parts = append(parts, s2)
				}
				return "encap | " + strings.Join(parts, " | ")
			case 11:
				h := 1 + r.IntN(4)
				b.WithDecapsulateHeader(fluent.Header(h))
				return fmt.Sprintf("decaph %d", h)
			case 12:
				h := 1 + r.IntN(4)
				b.WithEncapsulateHeader(fluent.Header(h))
				return fmt.Sprintf("encaph %d", h)
			default:
				lo, hi := elec(r)
				b.WithElectionID(lo, hi)
				return fmt.Sprintf("elec %d %d", lo, hi)
			}
		}}
	}
}

func encFields(fs []string) string {
	o := make([]string, len(fs))
	for i, f := range fs {
		o[i] = S(f)
	}
	return "[" + strings.Join(o, ",") + "]"
}

func optU(r *rand.Rand, n int) (string, uint64, bool) {
	if r.IntN(3) == 0 {
		return "-", 0, false
	}
	v := uint64(r.IntN(n))
	return fmt.Sprint(v), v, true
}

func fluentCase(seed uint64, idx int) *CaseSpec {
	name := fmt.Sprintf("fluent/%d/%d", seed, idx)
	run := func(keep []int) (*Trace, error) {
		r := rngFor(seed, idx)
		t := &Trace{}
		t.Add("begin %s", name)
		stub := &stubClient{}
		elected := r.IntN(3) != 0
		c := fluent.NewClient()
		conn := c.Connection().WithStub(stub)
		initLo, initHi := uint64(1+r.IntN(3)), uint64(r.IntN(2))
		if elected {
			conn.WithRedundancyMode(fluent.ElectedPrimaryClient).WithInitialElectionID(initLo, initHi).WithPersistence()
			t.Add("fl.new 1 %d %d", initLo, initHi)
		} else {
			if r.IntN(2) == 0 {
				conn.WithRedundancyMode(fluent.AllPrimaryClients)
			}
			t.Add("fl.new 0 0 0")
		}
		ctx, cancel := context.WithCancel(context.Background())
		defer cancel()
		var startErr string
		pass, pan := runCap(func(tb testing.TB) {
			c.Start(ctx, tb)
			c.StartSending(ctx, tb)
		})
		if !pass {
			startErr = "start failed " + pan
			t.Add("crash - %s", S(startErr))
			t.Add("end")
			return t, nil
		}
		defer func() { runCap(func(tb testing.TB) { c.Stop(tb) }) }()
		st := stub.last()
		// initial params / election messages
		time.Sleep(2 * time.Millisecond)
		base := 0
		for i := 0; i < 200; i++ {
			n := st.nSent()
			time.Sleep(300 * time.Microsecond)
			if n == st.nSent() && (n > 0 || !elected) {
				base = n
				break
			}
		}
		base = st.nSent()
		sentSoFar := base

		builders := []*flB{}
		steps := 25 + r.IntN(15)
		for s := 0; s < steps; s++ {
			x := r.IntN(100)
			switch {
			case len(builders) == 0 || x < 12:
				kind := []string{"v4", "v6", "label", "nh", "nh", "nhg"}[r.IntN(6)]
				builders = append(builders, newFlB(r, kind))
				t.Add("fl.b %d %s", len(builders)-1, kind)
			case x < 70:
				k := r.IntN(len(builders))
				t.Add("fl.c %d %s", k, builders[k].do(r))
			case x < 80:
				k := r.IntN(len(builders))
				if r.IntN(2) == 0 {
					op, err := builders[k].e.OpProto()
					if err != nil {
						t.Add("fl.op %d => err", k)
					} else {
						t.Add("fl.op %d => %s", k, encFields(flatten(op)))
					}
				} else {
					ep, err := builders[k].e.EntryProto()
					if err != nil {
						t.Add("fl.ep %d => err", k)
					} else {
						t.Add("fl.ep %d => %s", k, encFields(flatten(ep)))
					}
				}
			case x < 95:
				n := 1 + r.IntN(3)
				ks := []uint64{}
				es := []fluent.GRIBIEntry{}
				for i := 0; i < n; i++ {
					k := r.IntN(len(builders))
					ks = append(ks, uint64(k))
					es = append(es, builders[k].e)
				}
				ty := 1 + r.IntN(3)
				ok, pan := runCap(func(tb testing.TB) {
					switch ty {
					case 1:
						c.Modify().AddEntry(tb, es...)
					case 2:
						c.Modify().ReplaceEntry(tb, es...)
					default:
						c.Modify().DeleteEntry(tb, es...)
					}
				})
				if !ok {
					t.Add("fl.mod %d %s => fatal %s", ty, L(ks), S(pan))
					continue
				}
				sentSoFar++
				if !st.waitSent(sentSoFar, wd(3*time.Second)) {
					t.Add("fl.unsent %s", S(fmt.Sprintf("AddEntry/ReplaceEntry/DeleteEntry (type %d) of %d entries", ty, len(ks))))
					t.Add("end")
					return t, nil
				}
				st.mu.Lock()
				m := st.sent[sentSoFar-1]
				st.mu.Unlock()
				t.Add("fl.mod %d %s => %s", ty, L(ks), encFields(flatten(m)))
			case x < 96 && x >= 86:
				// a Get or Flush request built by a fresh chain of setters: what reaches the wire is
				// what *this* chain set (compared with the request built directly from the same choices)
				if r.IntN(2) == 0 {
					g := c.Get()
					want := &spb.GetRequest{}
					switch r.IntN(3) {
					case 0:
						g = g.AllNetworkInstances()
						want.NetworkInstance = &spb.GetRequest_All{All: &spb.Empty{}}
					case 1:
						n := []string{"DEFAULT", "VRF1"}[r.IntN(2)]
						g = g.WithNetworkInstance(n)
						want.NetworkInstance = &spb.GetRequest_Name{Name: n}
					}
					if r.IntN(2) == 0 {
						a := []fluent.AFT{fluent.AllAFTs, fluent.IPv4, fluent.NextHopGroup, fluent.NextHop, fluent.IPv6}[r.IntN(5)]
						g = g.WithAFT(a)
						want.Aft = map[fluent.AFT]spb.AFTType{fluent.AllAFTs: spb.AFTType_ALL, fluent.IPv4: spb.AFTType_IPV4, fluent.NextHopGroup: spb.AFTType_NEXTHOP_GROUP, fluent.NextHop: spb.AFTType_NEXTHOP, fluent.IPv6: spb.AFTType_IPV6}[a]
					}
					stub.mu.Lock()
					before := len(stub.gets)
					stub.mu.Unlock()
					g.Send()
					stub.mu.Lock()
					if len(stub.gets) > before {
						t.Add("fl.req get %s %s", encFields(flatten(stub.gets[len(stub.gets)-1])), encFields(flatten(want)))
					} else {
						t.Add("fl.req get-not-sent [] []")
					}
					stub.mu.Unlock()
				} else {
					f := c.Flush()
					want := &spb.FlushRequest{}
					switch r.IntN(3) {
					case 0:
						f = f.WithAllNetworkInstances()
						want.NetworkInstance = &spb.FlushRequest_All{All: &spb.Empty{}}
					case 1:
						n := []string{"DEFAULT", "VRF1"}[r.IntN(2)]
						f = f.WithNetworkInstance(n)
						want.NetworkInstance = &spb.FlushRequest_Name{Name: n}
					}
					switch r.IntN(3) {
					case 0:
						f = f.WithElectionOverride()
						want.Election = &spb.FlushRequest_Override{Override: &spb.Empty{}}
					case 1:
						lo, hi := uint64(1+r.IntN(5)), uint64(r.IntN(2))
						f = f.WithElectionID(lo, hi)
						want.Election = &spb.FlushRequest_Id{Id: &spb.Uint128{Low: lo, High: hi}}
					}
					stub.mu.Lock()
					before := len(stub.flushes)
					stub.mu.Unlock()
					f.Send()
					stub.mu.Lock()
					if len(stub.flushes) > before {
						t.Add("fl.req flush %s %s", encFields(flatten(stub.flushes[len(stub.flushes)-1])), encFields(flatten(want)))
					} else {
						t.Add("fl.req flush-not-sent [] []")
					}
					stub.mu.Unlock()
				}
			case x < 97 && s > 5:
				// the same fluent client stopped and started again (a new stream): its operation
				// ids and its current election id go on
				ok, _ := runCap(func(tb testing.TB) {
					c.Stop(tb)
					c.Start(ctx, tb)
					c.StartSending(ctx, tb)
				})
				if !ok {
					t.Add("crash - %s", S("restart failed"))
					t.Add("end")
					return t, nil
				}
				st = stub.last()
				time.Sleep(2 * time.Millisecond)
				for i := 0; i < 200; i++ {
					n := st.nSent()
					time.Sleep(300 * time.Microsecond)
					if n == st.nSent() && (n > 0 || !elected) {
						break
					}
				}
				sentSoFar = st.nSent()
				t.Add("fl.restart")
			case elected && x == 99 && r.IntN(2) == 0:
				// the initial election id specified again on the connection, after updates: it is the
				// id most recently set on the client, so the next operations carry it
				lo, hi := uint64(1+r.IntN(9)), uint64(r.IntN(3))
				c.Connection().WithInitialElectionID(lo, hi)
				initLo, initHi = lo, hi
				t.Add("fl.initelec %d %d", lo, hi)
			default:
				lo, hi := uint64(1+r.IntN(9)), uint64(r.IntN(3))
				if r.IntN(4) == 0 {
					// back to the id the connection started with: an update like any other
					lo, hi = initLo, initHi
				}
				c.Modify().UpdateElectionID(nil, lo, hi)
				sentSoFar++
				if !st.waitSent(sentSoFar, wd(3*time.Second)) {
					t.Add("fl.unsent %s", S(fmt.Sprintf("UpdateElectionID(%d, %d)", lo, hi)))
					t.Add("end")
					return t, nil
				}
				st.mu.Lock()
				m := st.sent[sentSoFar-1]
				st.mu.Unlock()
				t.Add("fl.upd %d %d => %s", lo, hi, encFields(flatten(m)))
			}
		}
		// immutability: every message sent must still render as it did when it was sent
		st.mu.Lock()
		changed := []uint64{}
		for i, m := range st.sent {
			if strings.Join(flatten(m), " ") != st.atSend[i] {
				changed = append(changed, uint64(i))
			}
		}
		st.mu.Unlock()
		t.Add("fl.final %s", L(changed))
		t.Add("end")
		return t, nil
	}
	return &CaseSpec{Name: name, N: 1, Run: run, Inputs: func() []string { return []string{name} }}
}

var _ = proto.Clone

func init() {
	modes["fluent"] = &Mode{
		Name: "fluent",
		Gen:  func(seed uint64, idx int, tier string) *CaseSpec { return fluentCase(seed, idx) },
		Count: func(tier string) int {
			if tier == "thorough" {
				return 3000
			}
			return 300
		},
		Required: []string{"fl.op", "fl.ep", "fl.mod", "fl.upd"},
	}
	props["C18"] = &PropSpec{Mode: "fluent", Diffs: []string{"fl."}, Monitors: []string{"c18"}}
}
