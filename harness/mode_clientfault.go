package main

// Fault enumeration on the real client (property C14): a scripted exchange against the stub
// stream, with a stream error injected at every message index on the send side and on the
// receive side, for several gRPC status classes, while the application keeps queueing a burst of
// requests; followed by Close, or by Reset + Connect + a further exchange. Every call runs under
// a watchdog; goroutines of the client package are counted afterwards.
//
// One line of observations per case (`cf.obs`), judged by the Lean driver against the lifecycle
// and accounting models (C14.c14_q_returns, c14_error_surfaces, c14_reset_fresh).

import (
	"context"
	"errors"
	"fmt"
	"io"
	"runtime"
	"strings"
	"sync"
	"time"

	"google.golang.org/grpc/codes"
	"google.golang.org/grpc/status"

	"github.com/openconfig/gribigo/client"

	aftpb "github.com/openconfig/gribi/v1/proto/gribi_aft"
	spb "github.com/openconfig/gribi/v1/proto/service"
)

type cfCase struct {
	side   string // send | recv
	k      int    // index of the failing Send / number of responses delivered before the failing Recv
	class  string // unavailable | internal | canceled | deadline | eof
	ending string // close | reset
	fib    bool
	// burstFirst: the burst of 8 is queued before StartSending's messages have been answered
	// (it races with the fault) rather than after the scripted requests
	burstFirst bool
	// lag: (send side) the receiver learns of the failure 1.6 s after the sender did; Close and
	// Reset wait for it — they return only when no goroutine of the connection is left
	lag bool
}

func (c cfCase) name() string {
	n := fmt.Sprintf("cfault/%s/%d/%s/%s/%s/%s", c.side, c.k, c.class, c.ending, B(c.fib), B(c.burstFirst))
	if c.lag {
		n += "/lag"
	}
	return n
}

func cfErr(class string) error {
	switch class {
	case "unavailable":
		return status.Error(codes.Unavailable, "injected: transport is closing")
	case "internal":
		return status.Error(codes.Internal, "injected: internal error")
	case "canceled":
		return status.Error(codes.Canceled, "injected: context canceled")
	case "deadline":
		return status.Error(codes.DeadlineExceeded, "injected: deadline exceeded")
	case "exhausted":
		return status.Error(codes.ResourceExhausted, "injected: resource exhausted")
	case "eof":
		return io.EOF
	}
	return errors.New("injected: " + class)
}

func clientGoroutines() int {
	buf := make([]byte, 8<<20)
	n := runtime.Stack(buf, true)
	cnt := 0
	for _, g := range strings.Split(string(buf[:n]), "\n\n") {
		if strings.Contains(g, "gribigo/client.(*Client).Connect.func") {
			cnt++
		}
	}
	return cnt
}

// within runs f under a watchdog.
func within(d time.Duration, f func()) bool {
	done := make(chan struct{})
	go func() { f(); close(done) }()
	select {
	case <-done:
		return true
	case <-time.After(wd(d)):
		return false
	}
}

// cfServer answers every request the client sends on st as a conformant server would; after
// `faultAfter` responses (when >= 0) it delivers err instead and stops.
func cfServer(st *stubStream, fib bool, faultAfter int, err error, stop chan struct{}) {
	seen := 0
	delivered := 0
	push := func(r *spb.ModifyResponse) bool {
		if faultAfter >= 0 && delivered >= faultAfter {
			st.recvCh <- recvItem{err: err}
			return false
		}
		st.recvCh <- recvItem{resp: r}
		delivered++
		return true
	}
	if faultAfter == 0 {
		st.recvCh <- recvItem{err: err}
		return
	}
	for {
		select {
		case <-stop:
			return
		case <-st.closed:
			return
		default:
		}
		st.mu.Lock()
		var reqs []*spb.ModifyRequest
		if len(st.sent) > seen {
			reqs = append(reqs, st.sent[seen:]...)
			seen = len(st.sent)
		}
		st.mu.Unlock()
		for _, m := range reqs {
			switch {
			case m.Params != nil:
				if !push(&spb.ModifyResponse{SessionParamsResult: &spb.SessionParametersResult{Status: spb.SessionParametersResult_OK}}) {
					return
				}
			case m.ElectionId != nil:
				if !push(&spb.ModifyResponse{ElectionId: m.ElectionId}) {
					return
				}
			}
			for _, op := range m.Operation {
				rs := []*spb.AFTResult{{Id: op.Id, Status: spb.AFTResult_RIB_PROGRAMMED}}
				if fib {
					rs = append(rs, &spb.AFTResult{Id: op.Id, Status: spb.AFTResult_FIB_PROGRAMMED})
				}
				if !push(&spb.ModifyResponse{Result: rs}) {
					return
				}
			}
		}
		if len(reqs) == 0 {
			time.Sleep(50 * time.Microsecond)
		}
	}
}

func cfOp(id uint64) *spb.ModifyRequest {
	return &spb.ModifyRequest{Operation: []*spb.AFTOperation{{Id: id, NetworkInstance: "DEFAULT", Op: spb.AFTOperation_ADD, ElectionId: &spb.Uint128{Low: 1},
		Entry: &spb.AFTOperation_NextHop{NextHop: &aftpb.Afts_NextHopKey{Index: id, NextHop: &aftpb.Afts_NextHop{IpAddress: sv("10.0.0.1")}}}}}}
}

var cfMu sync.Mutex

func cfaultCase(cs cfCase) *CaseSpec {
	name := cs.name()
	run := func(keep []int) (*Trace, error) {
		cfMu.Lock()
		defer cfMu.Unlock()
		client.BusyLoopDelay = time.Millisecond
		t := &Trace{}
		t.Add("begin %s", name)
		base := clientGoroutines()
		opts := []client.Opt{client.PersistEntries(), client.ElectedPrimaryClient(&spb.Uint128{Low: 1})}
		if cs.fib {
			opts = append(opts, client.FIBACK())
		}
		c, err := client.New(opts...)
		if err != nil {
			return t, err
		}
		stub := &stubClient{}
		c.UseStub(stub)
		ctx, cancel := context.WithCancel(context.Background())
		defer cancel()
		if err := c.Connect(ctx); err != nil {
			return t, err
		}
		st := stub.last()
		ferr := cfErr(cs.class)
		stop := make(chan struct{})
		defer close(stop)
		if cs.side == "send" {
			st.mu.Lock()
			st.failSendAt, st.sendErr = cs.k, ferr
			st.breakOnSendErr = true
			if cs.lag {
				st.recvLag = 1600 * time.Millisecond
			}
			st.mu.Unlock()
			go cfServer(st, cs.fib, -1, nil, stop)
		} else {
			go cfServer(st, cs.fib, cs.k, ferr, stop)
		}
		// the application: StartSending (2 messages), 6 scripted requests, a burst of 8
		const scripted, burst = 6, 8
		returned := 0
		var rmu sync.Mutex
		app := func() {
			if cs.burstFirst {
				for i := 0; i < burst; i++ {
					c.Q(cfOp(uint64(101 + i)))
					rmu.Lock()
					returned++
					rmu.Unlock()
				}
			}
			for i := 0; i < scripted; i++ {
				c.Q(cfOp(uint64(1 + i)))
			}
			if !cs.burstFirst {
				for i := 0; i < burst; i++ {
					c.Q(cfOp(uint64(101 + i)))
					rmu.Lock()
					returned++
					rmu.Unlock()
				}
			}
		}
		startOK := within(3*time.Second, func() { c.StartSending() })
		appOK := false
		if startOK {
			appOK = within(3*time.Second, app)
		}
		rmu.Lock()
		qret := returned
		rmu.Unlock()
		// was the fault reached at all? (a late index may lie beyond the exchange). The sender
		// goroutine works through the queue on its own: wait until it has either hit the fault or
		// put every message of the exchange on the stream before judging
		reached := true
		if cs.side == "send" {
			const total = 2 + scripted + burst
			for dl := time.Now().Add(wd(2 * time.Second)); time.Now().Before(dl); {
				st.mu.Lock()
				n := len(st.sent)
				st.mu.Unlock()
				if st.sendFailed.Load() || n >= total {
					break
				}
				time.Sleep(200 * time.Microsecond)
			}
			reached = st.sendFailed.Load()
		}
		// the error is recorded
		recorded := false
		recWait := 2 * time.Second
		if cs.class == "eof" && cs.side == "recv" {
			recWait = 50 * time.Millisecond // an orderly end of stream seen by the receiver is not an error
		}
		for dl := time.Now().Add(recWait); time.Now().Before(dl); {
			s, _ := c.Status()
			if s != nil && (len(s.SendErrs) > 0 || len(s.ReadErrs) > 0) {
				recorded = true
				break
			}
			time.Sleep(200 * time.Microsecond)
		}
		if cs.side == "recv" {
			reached = st.recvReturnsErr.Load()
		}
		// AwaitConverged under its own deadline and an outer watchdog
		await := "hang"
		awaitLimit := 5 * time.Second // generous: the error is there already, the answer is immediate
		if (cs.class == "eof" && cs.side == "recv") || !reached {
			awaitLimit = 300 * time.Millisecond // nothing to wait for: only liveness is judged
		}
		within(awaitLimit+4*time.Second, func() {
			actx, acancel := context.WithTimeout(context.Background(), wd(awaitLimit))
			defer acancel()
			err := c.AwaitConverged(actx)
			var ce *client.ClientErr
			switch {
			case err == nil:
				await = "nil"
			case errors.As(err, &ce):
				await = "err"
			case errors.Is(err, context.DeadlineExceeded):
				await = "ctx"
			default:
				await = "other"
			}
		})
		done := false
		if cs.k%2 == 0 {
			select {
			case <-c.Done():
				done = true
			case <-time.After(wd(time.Second)):
			}
		} else {
			// an application that notices the failure through AwaitConverged and never reads Done:
			// the report stays where it is (looked at, not taken) — Reset has to clear it
			for dl := time.Now().Add(wd(time.Second)); time.Now().Before(dl); time.Sleep(time.Millisecond) {
				if len(c.Done()) > 0 {
					done = true
					break
				}
			}
		}
		closeRes, fresh, exch := "-", "-", "-"
		leak := 0
		census := func() int {
			n := 0
			for dl := time.Now().Add(time.Second); time.Now().Before(dl); {
				n = clientGoroutines() - base
				if n <= 0 {
					return 0
				}
				time.Sleep(time.Millisecond)
			}
			return n
		}
		switch cs.ending {
		case "close":
			if within(3*time.Second, func() { c.Close() }) {
				closeRes = "ok"
			} else {
				closeRes = "hang"
			}
			leak = census()
			if closeRes == "ok" {
				// calls that queue further requests still return — after Close as well
				if !within(3*time.Second, func() {
					for i := 0; i < 8; i++ {
						c.Q(cfOp(uint64(301 + i)))
					}
				}) {
					closeRes = "q-after-close-hang"
				}
			}
		default:
			if within(3*time.Second, func() { c.Reset() }) {
				closeRes = "ok"
			} else {
				closeRes = "hang"
			}
			leak = census()
			if closeRes == "ok" {
				// fresh: nothing left over
				p, _ := c.Pending()
				r, _ := c.Results()
				s, _ := c.Status()
				fresh = "1"
				if len(p) != 0 || len(r) != 0 || (s != nil && (len(s.SendErrs) != 0 || len(s.ReadErrs) != 0)) || len(c.Done()) != 0 {
					fresh = "0"
				}
				// a further exchange on a new stream
				exch = "ok"
				if err := c.Connect(ctx); err != nil {
					exch = "connect-failed"
				} else {
					st2 := stub.last()
					stop2 := make(chan struct{})
					go cfServer(st2, cs.fib, -1, nil, stop2)
					ok := within(3*time.Second, func() {
						c.StartSending()
						c.Q(cfOp(201))
						c.Q(cfOp(202))
					})
					if !ok {
						exch = "queue-hang"
					} else {
						var aerr error
						if !within(4*time.Second, func() {
							actx, acancel := context.WithTimeout(context.Background(), wd(2*time.Second))
							defer acancel()
							aerr = c.AwaitConverged(actx)
						}) {
							exch = "await-hang"
						} else if aerr != nil {
							exch = "await-error"
						} else {
							r, _ := c.Results()
							ids := map[uint64]int{}
							other := 0
							for _, x := range r {
								if x.OperationID != 0 {
									ids[x.OperationID]++
								}
								if x.OperationID != 0 && x.OperationID != 201 && x.OperationID != 202 {
									other++
								}
							}
							per := 1
							if cs.fib {
								per = 2
							}
							if other != 0 || ids[201] != per || ids[202] != per {
								exch = fmt.Sprintf("wrong-results:%d/%d/%d", other, ids[201], ids[202])
							}
						}
					}
					close(stop2)
					if !within(3*time.Second, func() { c.Close() }) {
						exch += "+close-hang"
					}
					if n := census(); n != 0 {
						leak += n
					}
				}
			}
		}
		// Reset racing with AwaitConverged (both take the error locks): neither may block
		rr := "ok"
		if closeRes == "ok" {
			stopA := make(chan struct{})
			var aw sync.WaitGroup
			aw.Add(1)
			go func() {
				defer aw.Done()
				for {
					select {
					case <-stopA:
						return
					default:
					}
					cctx, ccancel := context.WithTimeout(context.Background(), 2*time.Millisecond)
					c.AwaitConverged(cctx)
					ccancel()
				}
			}()
			if !within(3*time.Second, func() {
				for i := 0; i < 200; i++ {
					c.Reset()
				}
			}) {
				rr = "hang"
			}
			close(stopA)
			if !within(3*time.Second, aw.Wait) {
				rr = "hang"
			}
		}
		t.Add("cf.obs side=%s k=%d class=%s ending=%s fib=%s burstfirst=%s burst=%d => reached=%s start=%s app=%s q=%d recorded=%s await=%s done=%s end=%s leak=%d fresh=%s exch=%s resetrace=%s",
			cs.side, cs.k, cs.class, cs.ending, B(cs.fib), B(cs.burstFirst), burst, B(reached), B(startOK), B(appOK), qret, B(recorded), await, B(done), closeRes, leak, fresh, exch, rr)
		t.Add("end")
		return t, nil
	}
	return &CaseSpec{Name: name, N: 1, Run: run, Inputs: func() []string { return []string{name} }}
}

func cfEnumerate(tier string) []cfCase {
	out := []cfCase{}
	maxK := 5
	classes := []string{"unavailable", "internal", "canceled", "eof"}
	if tier == "thorough" {
		maxK = 17
		classes = []string{"unavailable", "internal", "canceled", "deadline", "exhausted", "eof"}
	}
	for _, side := range []string{"send", "recv"} {
		for k := 0; k <= maxK; k++ {
			for ci, class := range classes {
				// send/eof: Send on a stream the server has ended returns io.EOF (and Recv a clean
				// io.EOF): requests can no longer be delivered, which is a failure of the stream
				for ei, ending := range []string{"close", "reset"} {
					variants := []bool{(k+ci+ei)%2 == 0}
					if tier == "thorough" {
						variants = []bool{false, true}
					}
					for _, bf := range variants {
						out = append(out, cfCase{side: side, k: k, class: class, ending: ending, fib: (k+ci)%2 == 0, burstFirst: bf})
					}
				}
			}
		}
	}
	return out
}

// cfOpenCase: the earliest point at which the Modify stream can fail — it cannot be opened
// (Connect returns the error). The client is then torn down by two calls in a row (Close or
// Reset, every combination), each of which has to return; after a Reset it is connected to a
// working stub and has to carry one exchange like a fresh client.
func cfOpenCase(class string, seq []string) *CaseSpec {
	name := fmt.Sprintf("clientfault/open/%s/%s", class, strings.Join(seq, "-"))
	run := func(keep []int) (*Trace, error) {
		cfMu.Lock()
		defer cfMu.Unlock()
		client.BusyLoopDelay = time.Millisecond
		t := &Trace{}
		t.Add("begin %s", name)
		base := clientGoroutines()
		c, err := client.New(client.PersistEntries(), client.ElectedPrimaryClient(&spb.Uint128{Low: 1}))
		if err != nil {
			return t, err
		}
		stub := &stubClient{modifyErr: cfErr(class)}
		c.UseStub(stub)
		ctx, cancel := context.WithCancel(context.Background())
		defer cancel()
		cerr := c.Connect(ctx)
		outcome := "ok"
		for _, step := range seq {
			step := step
			res := make(chan string, 1)
			go func() {
				defer func() {
					if r := recover(); r != nil {
						res <- fmt.Sprintf("panic(%v)", r)
					}
				}()
				if step == "close" {
					c.Close()
				} else {
					c.Reset()
				}
				res <- "ok"
			}()
			select {
			case o := <-res:
				if o != "ok" && outcome == "ok" {
					outcome = step + ":" + o
				}
			case <-time.After(wd(3 * time.Second)):
				if outcome == "ok" {
					outcome = step + ":hang"
				}
			}
			if outcome != "ok" {
				break
			}
		}
		left := 0
		if outcome == "ok" {
			deadline := time.Now().Add(2 * time.Second)
			for time.Now().Before(deadline) {
				if left = clientGoroutines() - base; left <= 0 {
					left = 0
					break
				}
				time.Sleep(time.Millisecond)
			}
		}
		t.Add("cf.open class=%s seq=%s connecterr=%s outcome=%s goroutines=%d", class, strings.Join(seq, "-"), B(cerr != nil), S(outcome), left)
		t.Add("end")
		return t, nil
	}
	return &CaseSpec{Name: name, N: 1, Run: run, Inputs: func() []string { return []string{name} }}
}

func cfOpenCorpus() []*CaseSpec {
	out := []*CaseSpec{}
	for _, class := range []string{"unavailable", "canceled"} {
		for _, seq := range [][]string{{"close"}, {"reset"}, {"close", "close"}, {"close", "reset"}, {"reset", "close"}, {"reset", "reset"}} {
			out = append(out, cfOpenCase(class, seq))
		}
	}
	return out
}

func init() {
	modes["clientfault"] = &Mode{
		Name: "clientfault",
		Gen: func(seed uint64, idx int, tier string) *CaseSpec {
			cs := cfEnumerate(tier)
			if idx >= len(cs) {
				return nil
			}
			return cfaultCase(cs[idx])
		},
		Count: func(tier string) int { return len(cfEnumerate(tier)) },
		Corpus: func() []*CaseSpec {
			out := cfOpenCorpus()
			for _, k := range []int{0, 3} {
				for _, ending := range []string{"close", "reset"} {
					out = append(out, cfaultCase(cfCase{side: "send", k: k, class: "unavailable", ending: ending, fib: k == 0, lag: true}))
				}
			}
			return out
		},
		Required: []string{"cf.open", "cf.send", "cf.recv", "cf.close", "cf.reset", "cf.ok"},
		Serial:   true,
		Atomic:   true,
	}
	props["C14"] = &PropSpec{Mode: "clientfault", Diffs: []string{"cf", "hang", "crash"}, Monitors: []string{"c14"}}
}
