package main

// Server-level harness: drives the real server.Server through in-memory Modify / Get
// streams (the real receive loop, field-exclusion rule, result pump and deleteClient run),
// and calls Flush directly. Every step is followed by a snapshot of RIB, election and
// session state through the verif hooks.

import (
	"context"
	"errors"
	"fmt"
	"io"
	"os"
	"regexp"
	"runtime"
	"sort"
	"strconv"
	"strings"
	"sync"
	"time"

	"github.com/openconfig/gribigo/constants"
	"github.com/openconfig/gribigo/server"
	"github.com/openconfig/ygot/ygot"
	"google.golang.org/grpc"
	"google.golang.org/grpc/metadata"
	"google.golang.org/grpc/status"

	spb "github.com/openconfig/gribi/v1/proto/service"
)

type fakeModify struct {
	grpc.ServerStream
	ctx   context.Context
	in    chan *spb.ModifyRequest
	ready chan struct{}
	mu    sync.Mutex
	out   []*spb.ModifyResponse
	done  chan error
	ended bool
	// failSendAfter >= 0: Send returns an error from that many sends on
	failSendAfter int
	sends         int
	gid           string
	cancelled     bool
	// cancel ends the stream's context, as gRPC does when the client cancels the RPC or the
	// transport fails (not on a clean half-close)
	cancel context.CancelFunc
}

func (f *fakeModify) Context() context.Context { return f.ctx }
func (f *fakeModify) Send(m *spb.ModifyResponse) error {
	f.mu.Lock()
	defer f.mu.Unlock()
	if f.failSendAfter >= 0 && f.sends >= f.failSendAfter {
		if f.cancel != nil {
			f.cancel() // a stream whose transport has failed has a finished context
		}
		return errors.New("transport is closing")
	}
	f.sends++
	f.out = append(f.out, m)
	return nil
}
func (f *fakeModify) Recv() (*spb.ModifyRequest, error) {
	select {
	case f.ready <- struct{}{}:
	default:
	}
	m, ok := <-f.in
	if !ok {
		return nil, io.EOF
	}
	if m == nil {
		f.mu.Lock()
		c := f.cancelled
		f.mu.Unlock()
		if c {
			return nil, status.Error(1, "context canceled")
		}
		return nil, status.Error(14, "transport failure")
	}
	return m, nil
}
func (f *fakeModify) SetHeader(metadata.MD) error  { return nil }
func (f *fakeModify) SendHeader(metadata.MD) error { return nil }
func (f *fakeModify) SetTrailer(metadata.MD)       {}

func (f *fakeModify) take() []*spb.ModifyResponse {
	f.mu.Lock()
	defer f.mu.Unlock()
	o := f.out
	f.out = nil
	return o
}

var gorHeader = regexp.MustCompile(`^goroutine \d+ \[([^\]]+)\]`)

func curGoroutineID() string {
	buf := make([]byte, 64)
	n := runtime.Stack(buf, false)
	f := strings.Fields(string(buf[:n]))
	if len(f) >= 2 {
		return f[1]
	}
	return "?"
}

// pumpIdle reports whether the result pump of the Modify RPC running in goroutine gid is
// parked in its select (or has exited): then every response handed over so far has been
// written to the stream.
func pumpIdle(gid string) bool {
	buf := make([]byte, 4<<20)
	n := runtime.Stack(buf, true)
	marker := "in goroutine " + gid + "\n"
	for _, g := range strings.Split(string(buf[:n])+"\n", "\n\n") {
		if !strings.Contains(g, "(*Server).Modify.func2") || !strings.Contains(g+"\n", marker) {
			continue
		}
		m := gorHeader.FindStringSubmatch(g)
		if m == nil || !strings.HasPrefix(m[1], "select") {
			return false
		}
	}
	return true
}

// rpcParked reports whether the Modify RPC running in goroutine gid is parked waiting for
// its receive loop (i.e. the RPC is still open and idle).
func rpcParked(gid string) bool {
	buf := make([]byte, 4<<20)
	n := runtime.Stack(buf, true)
	prefix := "goroutine " + gid + " ["
	for _, g := range strings.Split(string(buf[:n]), "\n\n") {
		if strings.HasPrefix(g, prefix) {
			if !strings.HasPrefix(g[len(prefix):], "chan receive") || !strings.Contains(g, "(*Server).Modify(") {
				return false
			}
			// which receive: the handler waits for its receive loop at `<-errCh`; any other
			// receive in Modify (waiting for the sender to finish, say) is the RPC ending
			if txt, ok := frameLine(g, "(*Server).Modify("); ok {
				return strings.Contains(txt, "<-errCh")
			}
			return true
		}
	}
	return false
}

func waitPump(gid string) bool {
	deadline := time.Now().Add(stepTO())
	for !pumpIdle(gid) {
		if time.Now().After(deadline) {
			return false
		}
		time.Sleep(20 * time.Microsecond)
	}
	return true
}

// SrvH is one server under test with its open sessions.
type SrvH struct {
	S     *server.Server
	sess  map[int]*fakeModify
	uuid  map[int]string
	hooks *hookRec
	res   *resolvedRec
	// wedged: a snapshot of the server's state did not return within the watchdog
	wedged bool
}

type SrvCfg struct {
	// NoCheck: server.DisableRIBCheckFn() — the RIB is a plain keyed store; the model does not
	// describe that configuration, only the model-free monitors judge it
	NoCheck  bool
	Fwd      bool
	Hook     bool
	Resolved bool
	VRFs     []string
	Default  string
	// InjectElec: the server is a server.NewFake whose election id was seeded with
	// InjectElectionID before any session exists (an id is known, no session is primary)
	InjectElec *spb.Uint128
}

// resolvedRec records resolved-entry notifications with their snapshots.
type resolvedRec struct {
	mu   sync.Mutex
	evs  []resolvedEv
	wait sync.WaitGroup
}
type resolvedEv struct {
	op   constants.OpType
	ni   string
	aft  constants.AFT
	key  string
	ribs map[string]string // rendering of the snapshot at delivery
	raw  any
}

func NewSrvH(cfg *SrvCfg) (*SrvH, error) {
	h := &SrvH{sess: map[int]*fakeModify{}, uuid: map[int]string{}, hooks: &hookRec{}, res: &resolvedRec{}}
	opts := []server.ServerOpt{}
	if !cfg.Fwd {
		opts = append(opts, server.WithNoRIBForwardReferences())
	}
	if cfg.NoCheck {
		opts = append(opts, server.DisableRIBCheckFn())
	}
	if cfg.Hook {
		opts = append(opts, server.WithPostChangeRIBHook(h.hooks.fn))
	}
	if len(cfg.VRFs) > 0 {
		opts = append(opts, server.WithVRFs(cfg.VRFs))
	}
	if cfg.InjectElec != nil {
		fs, err := server.NewFake(opts...)
		if err != nil {
			return nil, err
		}
		fs.InjectElectionID(cfg.InjectElec)
		h.S = fs.Server
		return h, nil
	}
	s, err := server.New(opts...)
	if err != nil {
		return nil, err
	}
	h.S = s
	return h, nil
}

func (h *SrvH) sessionIDs() map[string]bool {
	// read under a watchdog: a server whose session table is locked for good must end the case
	// as a hang, not the run
	res := make(chan map[string]bool, 1)
	go func() {
		o := map[string]bool{}
		for _, v := range h.S.VerifSessions() {
			o[v.ID] = true
		}
		res <- o
	}()
	select {
	case o := <-res:
		return o
	case <-time.After(stepTO()):
		noteIfWedged()
		wdFired.Add(1)
		h.wedged = true
		return map[string]bool{}
	}
}

// Connect opens a Modify RPC as session c.
func (h *SrvH) Connect(c int) error {
	before := h.sessionIDs()
	if h.wedged {
		return errors.New("the server's session table could not be read within the watchdog (hang)")
	}
	fctx, fcancel := context.WithCancel(context.Background())
	f := &fakeModify{ctx: fctx, cancel: fcancel, in: make(chan *spb.ModifyRequest), ready: make(chan struct{}, 1), done: make(chan error, 1), failSendAfter: -1}
	gidc := make(chan string, 1)
	go func() { gidc <- curGoroutineID(); f.done <- h.S.Modify(f) }()
	f.gid = <-gidc
	select {
	case <-f.ready:
	case err := <-f.done:
		return fmt.Errorf("Modify returned at once: %v", err)
	case <-time.After(stepTO()):
		return errors.New("Modify did not start reading")
	}
	for id := range h.sessionIDs() {
		if !before[id] {
			h.uuid[c] = id
		}
	}
	h.sess[c] = f
	return nil
}

// ConnectDetached opens a Modify RPC that is not registered in the harness's session table (so
// that it can be driven from another goroutine while the numbered sessions are in use).
func (h *SrvH) ConnectDetached() (*fakeModify, error) {
	fctx, fcancel := context.WithCancel(context.Background())
	f := &fakeModify{ctx: fctx, cancel: fcancel, in: make(chan *spb.ModifyRequest), ready: make(chan struct{}, 1), done: make(chan error, 1), failSendAfter: -1}
	gidc := make(chan string, 1)
	go func() { gidc <- curGoroutineID(); f.done <- h.S.Modify(f) }()
	f.gid = <-gidc
	select {
	case <-f.ready:
	case err := <-f.done:
		return nil, fmt.Errorf("Modify returned at once: %v", err)
	case <-time.After(stepTO()):
		return nil, errors.New("Modify did not start reading")
	}
	return f, nil
}

// SendOn delivers m on a detached stream and waits until the server has dealt with it.
func (h *SrvH) SendOn(f *fakeModify, m *spb.ModifyRequest) MsgOutcome {
	select {
	case f.in <- m:
	case err := <-f.done:
		f.ended = true
		return MsgOutcome{Ended: true, Err: err}
	case <-time.After(stepTO()):
		noteIfWedged()
		return hungOutcome()
	}
	return h.await(f)
}

// Outcome of one message.
type MsgOutcome struct {
	Resps []*spb.ModifyResponse
	Ended bool
	Err   error
	Hang  bool
}

func (h *SrvH) await(f *fakeModify) MsgOutcome {
	o := MsgOutcome{}
	select {
	case <-f.ready:
		// the receive loop is back in Recv; the RPC itself may nevertheless be ending
		// (an error was handed to it): wait until it is either parked or has returned.
		deadline := time.Now().Add(stepTO())
		for {
			select {
			case err := <-f.done:
				o.Ended, o.Err = true, err
				f.ended = true
			default:
			}
			if o.Ended || rpcParked(f.gid) {
				break
			}
			if time.Now().After(deadline) {
				noteIfWedged()
				o.Hang = true
				wdFired.Add(1)
				break
			}
			time.Sleep(20 * time.Microsecond)
		}
	case err := <-f.done:
		o.Ended, o.Err = true, err
		f.ended = true
	case <-time.After(stepTO()):
		noteIfWedged()
		o.Hang = true
		wdFired.Add(1)
	}
	if !waitPump(f.gid) {
		noteIfWedged()
		o.Hang = true
		wdFired.Add(1)
	}
	o.Resps = f.take()
	return o
}

// Send delivers m on session c and waits until the server has dealt with it.
func (h *SrvH) Send(c int, m *spb.ModifyRequest) MsgOutcome {
	f := h.sess[c]
	if f == nil || f.ended {
		return MsgOutcome{Ended: true, Err: errors.New("no such session")}
	}
	select {
	case f.in <- m:
	case err := <-f.done:
		f.ended = true
		return MsgOutcome{Ended: true, Err: err}
	case <-time.After(stepTO()):
		noteIfWedged()
		return hungOutcome()
	}
	return h.await(f)
}

// Close half-closes session c (mode "eof") or breaks its transport (mode "fail").
func (h *SrvH) Close(c int, mode string) MsgOutcome {
	f := h.sess[c]
	if f == nil || f.ended {
		return MsgOutcome{Ended: true}
	}
	switch mode {
	case "fail", "cancel":
		f.mu.Lock()
		f.failSendAfter = f.sends // the client is gone: nothing more can be written to it
		f.cancelled = mode == "cancel"
		f.mu.Unlock()
		if f.cancel != nil {
			f.cancel()
		}
		select {
		case f.in <- nil:
		case <-time.After(stepTO()):
			noteIfWedged()
			return hungOutcome()
		}
	default:
		close(f.in)
	}
	o := MsgOutcome{}
	select {
	case err := <-f.done:
		o.Ended, o.Err = true, err
		f.ended = true
	case <-time.After(stepTO()):
		noteIfWedged()
		o.Hang = true
		wdFired.Add(1)
	}
	if !waitPump(f.gid) {
		noteIfWedged()
		o.Hang = true
		wdFired.Add(1)
	}
	o.Resps = f.take()
	return o
}

// readerSettled reports whether the receive loop of the Modify RPC that ran in goroutine gid has
// exited or is parked for good (blocked handing a result to a pump that no longer exists, or
// waiting in Recv).
func readerSettled(gid string) bool {
	buf := make([]byte, 4<<20)
	n := runtime.Stack(buf, true)
	marker := "in goroutine " + gid + "\n"
	for _, g := range strings.Split(string(buf[:n])+"\n", "\n\n") {
		if !strings.Contains(g, "(*Server).Modify.func1") || !strings.Contains(g+"\n", marker) {
			continue
		}
		m := gorHeader.FindStringSubmatch(g)
		if m == nil {
			return false
		}
		return strings.HasPrefix(m[1], "chan send") || strings.HasPrefix(m[1], "chan receive")
	}
	return true
}

// CutMid sends m on session c while the client disappears part-way through the answers: the
// transport accepts j more responses and then fails (mode "fail") or reports cancellation
// (mode "cancel"). It returns the responses that got through and how the RPC ended.
func (h *SrvH) CutMid(c int, m *spb.ModifyRequest, j int, mode string) MsgOutcome {
	f := h.sess[c]
	if f == nil || f.ended {
		return MsgOutcome{Ended: true, Err: errors.New("no such session")}
	}
	f.mu.Lock()
	f.failSendAfter = f.sends + j
	f.cancelled = mode == "cancel"
	f.mu.Unlock()
	select {
	case f.in <- m:
	case <-time.After(stepTO()):
		noteIfWedged()
		return hungOutcome()
	}
	o := MsgOutcome{}
	select {
	case err := <-f.done:
		o.Ended, o.Err = true, err
		f.ended = true
	case <-f.ready:
		// every response fitted: the batch was answered in full; the client goes away now
		select {
		case f.in <- nil:
		case <-time.After(stepTO()):
			noteIfWedged()
			return hungOutcome()
		}
		select {
		case err := <-f.done:
			o.Ended, o.Err = true, err
			f.ended = true
		case <-time.After(stepTO()):
			noteIfWedged()
			o.Hang = true
			wdFired.Add(1)
		}
	case <-time.After(stepTO()):
		noteIfWedged()
		o.Hang = true
		wdFired.Add(1)
	}
	// the receive loop may still be programming the operation it had in hand
	for dl := time.Now().Add(stepTO()); !readerSettled(f.gid); {
		if time.Now().After(dl) {
			noteIfWedged()
			o.Hang = true
			wdFired.Add(1)
			break
		}
		time.Sleep(50 * time.Microsecond)
	}
	// release a receive loop that came back to Recv
	select {
	case f.in <- nil:
	case <-time.After(2 * time.Millisecond):
	}
	o.Resps = f.take()
	return o
}

// ---- Get ----

type fakeGet struct {
	grpc.ServerStream
	ctx       context.Context
	mu        sync.Mutex
	out       []*spb.GetResponse
	failAfter int // >=0: Send fails from that many sends on
	// pauseAfter >= 0: the Send with that index blocks until resume is closed (a slow reader)
	pauseAfter int
	resume     chan struct{}
	paused     chan struct{}
}

func (f *fakeGet) Context() context.Context { return f.ctx }
func (f *fakeGet) Send(m *spb.GetResponse) error {
	f.mu.Lock()
	defer f.mu.Unlock()
	if f.failAfter >= 0 && len(f.out) >= f.failAfter {
		return errors.New("transport is closing")
	}
	if f.resume != nil && len(f.out) == f.pauseAfter {
		f.mu.Unlock()
		select {
		case <-f.paused:
		default:
			close(f.paused)
		}
		<-f.resume
		f.mu.Lock()
	}
	f.out = append(f.out, m)
	return nil
}
func (f *fakeGet) SetHeader(metadata.MD) error  { return nil }
func (f *fakeGet) SendHeader(metadata.MD) error { return nil }
func (f *fakeGet) SetTrailer(metadata.MD)       {}

// Get runs the Get RPC; failAfter < 0 = read to the end.
func (h *SrvH) Get(req *spb.GetRequest, failAfter int) ([]*spb.GetResponse, error, bool) {
	f := &fakeGet{ctx: context.Background(), failAfter: failAfter, pauseAfter: -1}
	done := make(chan error, 1)
	go func() { done <- h.S.Get(req, f) }()
	select {
	case err := <-done:
		f.mu.Lock()
		defer f.mu.Unlock()
		return f.out, err, false
	case <-time.After(stepTO()):
		noteIfWedged()
		return nil, nil, true
	}
}

// GetPaused starts a Get whose reader stalls after `after` responses. It returns once the reader
// is stalled (or the Get has ended); resume() lets it continue and returns its responses.
func (h *SrvH) GetPaused(req *spb.GetRequest, after int) (stalled bool, resume func() ([]*spb.GetResponse, error, bool)) {
	f := &fakeGet{ctx: context.Background(), failAfter: -1, pauseAfter: after, resume: make(chan struct{}), paused: make(chan struct{})}
	done := make(chan error, 1)
	go func() { done <- h.S.Get(req, f) }()
	select {
	case <-f.paused:
		stalled = true
	case err := <-done:
		done <- err
	case <-time.After(stepTO()):
	}
	return stalled, func() ([]*spb.GetResponse, error, bool) {
		close(f.resume)
		select {
		case err := <-done:
			f.mu.Lock()
			defer f.mu.Unlock()
			return f.out, err, false
		case <-time.After(stepTO()):
			return nil, nil, true
		}
	}
}

// Flush runs the Flush RPC.
func (h *SrvH) Flush(req *spb.FlushRequest) (*spb.FlushResponse, error, bool) {
	type r struct {
		resp *spb.FlushResponse
		err  error
	}
	done := make(chan r, 1)
	go func() {
		resp, err := h.S.Flush(context.Background(), req)
		done <- r{resp, err}
	}()
	select {
	case x := <-done:
		return x.resp, x.err, false
	case <-time.After(stepTO()):
		noteIfWedged()
		return nil, nil, true
	}
}

// ---- encoding of outcomes ----

func encStatus(st spb.AFTResult_Status) string {
	switch st {
	case spb.AFTResult_FAILED:
		return "failed"
	case spb.AFTResult_RIB_PROGRAMMED:
		return "rib"
	case spb.AFTResult_FIB_PROGRAMMED:
		return "fib"
	}
	return fmt.Sprintf("other%d", int(st))
}

func encResps(rs []*spb.ModifyResponse) []string {
	out := []string{}
	for _, r := range rs {
		switch {
		case r.GetSessionParamsResult() != nil:
			out = append(out, fmt.Sprintf("P %d", int(r.GetSessionParamsResult().GetStatus())))
		case r.GetElectionId() != nil && len(r.GetResult()) == 0:
			out = append(out, "E "+encElec(r.GetElectionId()))
		default:
			l := []string{}
			for _, x := range r.GetResult() {
				l = append(l, fmt.Sprintf("%d:%s", x.GetId(), encStatus(x.GetStatus())))
			}
			out = append(out, "R ["+strings.Join(l, ",")+"]")
		}
	}
	return out
}

func encTerm(o MsgOutcome) string {
	if o.Hang {
		return "T hang -"
	}
	if !o.Ended {
		return "T open -"
	}
	if o.Err == nil {
		return "T 0 -"
	}
	st, _ := status.FromError(o.Err)
	reason := "-"
	for _, d := range st.Details() {
		if md, ok := d.(*spb.ModifyRPCErrorDetails); ok {
			reason = fmt.Sprint(int(md.GetReason()))
		}
	}
	return fmt.Sprintf("T %d %s", int(st.Code()), reason)
}

func encOutcome(o MsgOutcome) string {
	parts := encResps(o.Resps)
	parts = append(parts, encTerm(o))
	return strings.Join(parts, " | ")
}

// ObsServer appends the state observations: RIB, election, sessions — under a watchdog, like
// ObsRIB (the election and session snapshots take locks of their own).
func (h *SrvH) ObsServer(t *Trace) error {
	tt := &Trace{}
	done := make(chan error, 1)
	go func() { done <- h.obsServer(tt) }()
	select {
	case err := <-done:
		if err != nil {
			return err
		}
		t.Lines = append(t.Lines, tt.Lines...)
		return nil
	case <-time.After(wd(30 * time.Second)):
		noteIfWedged()
		t.Add("hang")
		return errHang
	}
}

func (h *SrvH) obsServer(t *Trace) error {
	if err := ObsRIB(t, h.S.VerifRIB()); err != nil {
		return err
	}
	evs := h.hooks.drain()
	line := fmt.Sprintf("obs.hooks %d", len(evs))
	for _, e := range evs {
		line += " | " + e
	}
	t.Add("%s", line)
	id, master := h.S.VerifElection()
	mc := "-"
	for c, u := range h.uuid {
		if u == master && master != "" {
			mc = fmt.Sprint(c)
		}
	}
	if master != "" && mc == "-" {
		mc = "?"
	}
	t.Add("obs.elec %s %s", encElec(id), mc)
	rev := map[string]int{}
	for c, u := range h.uuid {
		rev[u] = c
	}
	l := []string{}
	for _, v := range h.S.VerifSessions() {
		c, ok := rev[v.ID]
		if !ok {
			c = -1
		}
		l = append(l, fmt.Sprintf("%d:%s%s%s%s:%s", c, B(v.Persist), B(v.ExpectElecID), B(v.FIBAck), B(v.SetParams), encElec(v.LastElecID)))
	}
	sort.Strings(l)
	t.Add("obs.sess [%s]", strings.Join(l, ","))
	return nil
}

var _ ygot.ValidatedGoStruct

func statusFromError(err error) (*status.Status, bool) { return status.FromError(err) }

// SendLite delivers m on session c and waits only until one more response has been written to
// the stream (or the RPC ended): for messages that are answered by exactly one response.
func (h *SrvH) SendLite(c int, m *spb.ModifyRequest) (*spb.ModifyResponse, bool) {
	f := h.sess[c]
	f.mu.Lock()
	before := len(f.out)
	f.mu.Unlock()
	select {
	case f.in <- m:
	case <-time.After(stepTO()):
		return nil, false
	}
	deadline := time.Now().Add(stepTO())
	for {
		f.mu.Lock()
		if len(f.out) > before {
			r := f.out[len(f.out)-1]
			f.mu.Unlock()
			// consume the "back in Recv" token of this message, so that a later Send/await does
			// not mistake it for its own
			select {
			case <-f.ready:
			case <-f.done:
				f.ended = true
				return r, false
			case <-time.After(stepTO()):
				return r, false
			}
			return r, true
		}
		f.mu.Unlock()
		select {
		case <-f.done:
			f.ended = true
			return nil, false
		default:
		}
		if time.Now().After(deadline) {
			return nil, false
		}
		runtime.Gosched()
	}
}

// hungOutcome: a step of the server harness ran into its wall-clock limit.
func hungOutcome() MsgOutcome {
	wdFired.Add(1)
	return MsgOutcome{Hang: true}
}

var srcLines sync.Map // file -> []string

// frameLine returns the text of the source line at which the frame of fn in the goroutine dump g
// stands (the line after the function's line in the dump is "\t<file>:<line> +0x…").
func frameLine(g, fn string) (string, bool) {
	ls := strings.Split(g, "\n")
	for i, l := range ls {
		if strings.Contains(l, fn) && i+1 < len(ls) {
			loc := strings.TrimSpace(ls[i+1])
			if j := strings.Index(loc, " "); j >= 0 {
				loc = loc[:j]
			}
			k := strings.LastIndex(loc, ":")
			if k < 0 {
				return "", false
			}
			file := loc[:k]
			n, err := strconv.Atoi(loc[k+1:])
			if err != nil {
				return "", false
			}
			v, ok := srcLines.Load(file)
			if !ok {
				b, err := os.ReadFile(file)
				if err != nil {
					return "", false
				}
				v = strings.Split(string(b), "\n")
				srcLines.Store(file, v)
			}
			lines := v.([]string)
			if n < 1 || n > len(lines) {
				return "", false
			}
			return lines[n-1], true
		}
	}
	return "", false
}
