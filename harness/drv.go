package main

// Plumbing to the compiled Lean driver (gribidrv): one long-lived process, traces are
// written to its stdin, verdict lines read back up to the END marker.

import (
	"bufio"
	"fmt"
	"io"
	"os"
	"os/exec"
	"strings"
)

type Driver struct {
	cmd *exec.Cmd
	in  *bufio.Writer
	inC io.WriteCloser
	out *bufio.Reader
}

// Verdict is what the driver said about one trace.
type Verdict struct {
	Diffs    []string
	MonFails []string
	Others   []string
	Cov      map[string]int
	Lines    int
}

func (v *Verdict) Clean() bool {
	return len(v.Diffs) == 0 && len(v.MonFails) == 0 && len(v.Others) == 0
}

func driverPath() string {
	if p := os.Getenv("GRIBIDRV"); p != "" {
		return p
	}
	return "/verif/lean/.lake/build/bin/gribidrv"
}

func StartDriver() (*Driver, error) {
	cmd := exec.Command(driverPath())
	cmd.Stderr = os.Stderr
	in, err := cmd.StdinPipe()
	if err != nil {
		return nil, err
	}
	out, err := cmd.StdoutPipe()
	if err != nil {
		return nil, err
	}
	if err := cmd.Start(); err != nil {
		return nil, err
	}
	return &Driver{cmd: cmd, in: bufio.NewWriterSize(in, 1<<20), inC: in, out: bufio.NewReaderSize(out, 1<<20)}, nil
}

func (d *Driver) Close() {
	d.inC.Close()
	d.cmd.Wait()
}

// Check sends one trace (which must end with an "end" line) and collects the verdict.
func (d *Driver) Check(t *Trace) (*Verdict, error) {
	errc := make(chan error, 1)
	go func() {
		for _, l := range t.Lines {
			d.in.WriteString(l)
			d.in.WriteByte('\n')
		}
		errc <- d.in.Flush()
	}()
	v := &Verdict{Cov: map[string]int{}}
	for {
		line, err := d.out.ReadString('\n')
		if err != nil {
			return v, fmt.Errorf("driver died: %v", err)
		}
		line = strings.TrimRight(line, "\n")
		switch {
		case strings.HasPrefix(line, "DIFF "):
			v.Diffs = append(v.Diffs, line)
		case strings.HasPrefix(line, "MONFAIL "):
			v.MonFails = append(v.MonFails, line)
		case strings.HasPrefix(line, "COV"):
			for _, kv := range strings.Fields(line)[1:] {
				var k string
				var n int
				if i := strings.LastIndex(kv, "="); i > 0 {
					k = kv[:i]
					fmt.Sscan(kv[i+1:], &n)
					v.Cov[k] += n
				}
			}
		case strings.HasPrefix(line, "END "):
			if err := <-errc; err != nil {
				return v, err
			}
			v.Lines = len(t.Lines)
			return v, nil
		default:
			v.Others = append(v.Others, line)
		}
	}
}
