package main

// Server-level event histories (properties C04, C05, C06, C08, C09, C12 and the Get/Flush
// halves of C07/C10), generated with per-property weights.

import (
	"errors"
	"fmt"
	"github.com/openconfig/gribigo/rib"
	"math/rand/v2"
	"strings"

	aftpb "github.com/openconfig/gribi/v1/proto/gribi_aft"
	spb "github.com/openconfig/gribi/v1/proto/service"
	"google.golang.org/protobuf/proto"
)

type SEv struct {
	Kind      string // connect msg close flush get
	C         int
	MsgKind   string // params elec ops multi empty
	Req       *spb.ModifyRequest
	Cls       []string
	CloseMode string
	Flush     *spb.FlushRequest
	Get       *spb.GetRequest
	GetFail   int
	// cutmid: the client disappears after J responses of the batch Req got through
	J int
	// addni: Server.AddNetworkInstance(NI) on the running server
	NI string
}

type SrvGenCfg struct {
	Srv      SrvCfg
	Pools    *Pools
	Steps    int
	MaxSess  int
	WViol    int // per-mille of deliberate protocol violations
	WStamp   int // per-mille of wrongly stamped operations
	WMalform int // per-mille malformed operations
	WFlush   int
	WGet     int
	// WReadd: per-mille chance that an ADD is followed at once by an ADD of the same key with a stripped payload
	WReadd int
	// WAddNI: per-mille chance (per step) that a network instance is added to the running server
	WAddNI int
	// GetAfterOps: per-mille chance of a complete Get right after an operations message (and one at the end)
	GetAfterOps int
	// BadNI: Flush / Get requests name the empty or an unknown network instance more often
	BadNI     bool
	WClose    int
	WElec     int // per-mille extra election announcements by elected sessions
	BatchMax  int
	FIB       int // 0 rib ack, 1 fib ack, 2 mixed attempts
	SharedIDs bool
}

var elecLattice = []uint64{0, 1, 2, 1 << 63, ^uint64(0) - 1, ^uint64(0)}

func latticeID(r *rand.Rand) *spb.Uint128 {
	return &spb.Uint128{High: elecLattice[r.IntN(len(elecLattice))], Low: elecLattice[r.IntN(len(elecLattice))]}
}

func cmp128(a, b *spb.Uint128) int {
	switch {
	case a.High != b.High:
		if a.High < b.High {
			return -1
		}
		return 1
	case a.Low != b.Low:
		if a.Low < b.Low {
			return -1
		}
		return 1
	}
	return 0
}

func inc128(a *spb.Uint128, by uint64) *spb.Uint128 {
	lo := a.Low + by
	hi := a.High
	if lo < a.Low {
		hi++
	}
	return &spb.Uint128{High: hi, Low: lo}
}

type gsess struct {
	phase int // 0 connected, 1 negotiated, 2 announced
	last  *spb.Uint128
	nextT uint64
	dead  bool
}

// GenSrvHistory generates one server-level history.
func GenSrvHistory(r *rand.Rand, cfg *SrvGenCfg) []SEv {
	p := cfg.Pools
	p.Known = append([]string{cfg.Srv.Default}, cfg.Srv.VRFs...)
	evs := []SEv{}
	sess := map[int]*gsess{}
	next := 1
	var max *spb.Uint128
	if cfg.Srv.InjectElec != nil {
		// the server starts out knowing an election id (seeded), with no session primary
		max = cfg.Srv.InjectElec
	}
	sh := &shadow{has: map[string]bool{}}
	ackMode := spb.SessionParameters_RIB_ACK
	if cfg.FIB == 1 || (cfg.FIB == 2 && r.IntN(2) == 0) {
		ackMode = spb.SessionParameters_RIB_AND_FIB_ACK
	}
	live := func() []int {
		o := []int{}
		for c := 1; c < next; c++ {
			if s := sess[c]; s != nil && !s.dead {
				o = append(o, c)
			}
		}
		return o
	}
	sharedNext := uint64(0)
	opID := func(c int) uint64 {
		if cfg.SharedIDs {
			sharedNext++
			return sharedNext
		}
		s := sess[c]
		s.nextT++
		return uint64(c)*1000 + s.nextT
	}
	genOps := func(c int, n int) (*spb.ModifyRequest, []string) {
		s := sess[c]
		req := &spb.ModifyRequest{}
		cls := []string{}
		for i := 0; i < n; i++ {
			op := &spb.AFTOperation{Id: opID(c)}
			if r.IntN(30) == 0 {
				op.NetworkInstance = []string{"", "NO-SUCH-NI"}[r.IntN(2)]
			} else {
				op.NetworkInstance = p.Known[r.IntN(len(p.Known))]
			}
			switch y := r.IntN(20); {
			case y < 12:
				op.Op = spb.AFTOperation_ADD
			case y < 15:
				op.Op = spb.AFTOperation_REPLACE
			case y < 19:
				op.Op = spb.AFTOperation_DELETE
			default:
				if r.IntN(3) == 0 {
					// an operation type the server does not implement: the named INVALID value or
					// an enum number outside the defined range (proto3 enums are open)
					op.Op = []spb.AFTOperation_Operation{spb.AFTOperation_INVALID, 4, 99}[r.IntN(3)]
				} else {
					op.Op = spb.AFTOperation_ADD
				}
			}
			p.GenEntry(r, op, "")
			if op.Op == spb.AFTOperation_DELETE {
				sh.retargetDelete(r, p, op)
				if r.IntN(2) == 0 {
					KeyOnly(op)
				}
			} else {
				if op.Op == spb.AFTOperation_REPLACE {
					sh.retargetDelete(r, p, op)
				}
				sh.biasEntry(r, p, op)
			}
			c1 := ""
			if r.IntN(1000) < cfg.WMalform {
				c1 = Malform(r, op)
			}
			// stamp
			stamp := s.last
			wrong := r.IntN(1000) < cfg.WStamp
			if wrong || stamp == nil {
				switch r.IntN(6) {
				case 0:
					stamp = nil
				case 1:
					stamp = max
				case 2:
					if s.last != nil {
						stamp = inc128(s.last, 1)
					}
				case 3:
					if s.last != nil && s.last.Low > 0 {
						stamp = &spb.Uint128{High: s.last.High, Low: s.last.Low - 1}
					}
				case 4:
					if s.last != nil {
						stamp = &spb.Uint128{High: s.last.Low, Low: s.last.High}
					}
				default:
					stamp = latticeID(r)
				}
			}
			if stamp != nil {
				op.ElectionId = proto.Clone(stamp).(*spb.Uint128)
			}
			isPrimary := max != nil && s.last != nil && cmp128(s.last, max) == 0
			if c1 == "" && isPrimary && stamp != nil && s.last != nil && cmp128(stamp, s.last) == 0 && (op.Op == spb.AFTOperation_ADD || op.Op == spb.AFTOperation_REPLACE || op.Op == spb.AFTOperation_DELETE) && sh.knownNI(p, op.NetworkInstance) {
				sh.note(op)
			}
			req.Operation = append(req.Operation, op)
			cls = append(cls, c1)
			if cfg.WReadd > 0 && c1 == "" && op.Op == spb.AFTOperation_ADD && r.IntN(1000) < cfg.WReadd {
				// the same key again, at once, with a payload that only keeps what is mandatory:
				// a replace is total, nothing of the first payload may survive
				op2 := proto.Clone(op).(*spb.AFTOperation)
				op2.Id = opID(c)
				Strip(op2)
				req.Operation = append(req.Operation, op2)
				cls = append(cls, "")
				if len(sh.has) >= 0 {
					isPrimary := max != nil && s.last != nil && cmp128(s.last, max) == 0
					if isPrimary && op2.ElectionId != nil && s.last != nil && cmp128(op2.ElectionId, s.last) == 0 && sh.knownNI(p, op2.NetworkInstance) {
						sh.note(op2)
					}
				}
			}
		}
		return req, cls
	}
	for len(evs) < cfg.Steps {
		l := live()
		x := r.IntN(1000)
		switch {
		case len(l) == 0 || (len(l) < cfg.MaxSess && x < 80):
			sess[next] = &gsess{}
			evs = append(evs, SEv{Kind: "connect", C: next})
			next++
			continue
		case cfg.WAddNI > 0 && len(p.Known) < 4 && r.IntN(1000) < cfg.WAddNI:
			ni := []string{"VRF2", "VRF3"}[len(p.Known)%2]
			evs = append(evs, SEv{Kind: "addni", NI: ni})
			p.Known = append(p.Known, ni)
			continue
		case x < 80+cfg.WFlush:
			f := &spb.FlushRequest{}
			nisel := r.IntN(8)
			if cfg.BadNI && nisel >= 6 {
				nisel = 3
			}
			switch nisel {
			case 0:
			case 1, 2:
				f.NetworkInstance = &spb.FlushRequest_Name{Name: p.Known[r.IntN(len(p.Known))]}
			case 3:
				f.NetworkInstance = &spb.FlushRequest_Name{Name: []string{"", "NO-SUCH-NI"}[r.IntN(2)]}
			default:
				f.NetworkInstance = &spb.FlushRequest_All{All: &spb.Empty{}}
			}
			switch r.IntN(8) {
			case 0:
			case 1, 2, 3:
				f.Election = &spb.FlushRequest_Override{Override: &spb.Empty{}}
			case 4:
				f.Election = &spb.FlushRequest_Id{Id: latticeID(r)}
			default:
				if max != nil {
					id := max
					switch r.IntN(6) {
					case 0:
						id = inc128(max, 1)
					case 1:
						if max.Low > 0 {
							id = &spb.Uint128{High: max.High, Low: max.Low - 1}
						} else if max.High > 0 {
							id = &spb.Uint128{High: max.High - 1, Low: ^uint64(0)}
						}
					case 2:
						// lower in the high word, higher in the low word: lower (a comparison that
						// takes the words in the wrong order says higher)
						if max.High > 0 && max.Low < ^uint64(0) {
							id = &spb.Uint128{High: max.High - 1, Low: max.Low + 1 + uint64(r.IntN(5))}
						}
					case 3:
						// higher in the high word, lower in the low word: higher
						if max.Low > 0 && max.High < ^uint64(0) {
							id = &spb.Uint128{High: max.High + 1, Low: max.Low - 1}
						}
					}
					f.Election = &spb.FlushRequest_Id{Id: id}
				} else {
					f.Election = &spb.FlushRequest_Id{Id: latticeID(r)}
				}
			}
			evs = append(evs, SEv{Kind: "flush", Flush: f})
			sh.has = map[string]bool{}
			continue
		case x < 80+cfg.WFlush+cfg.WGet:
			g := &spb.GetRequest{}
			nisel := r.IntN(8)
			if cfg.BadNI && nisel >= 6 {
				nisel = 3
			}
			switch nisel {
			case 0:
			case 1, 2:
				g.NetworkInstance = &spb.GetRequest_Name{Name: p.Known[r.IntN(len(p.Known))]}
			case 3:
				g.NetworkInstance = &spb.GetRequest_Name{Name: []string{"", "NO-SUCH-NI"}[r.IntN(2)]}
			default:
				g.NetworkInstance = &spb.GetRequest_All{All: &spb.Empty{}}
			}
			g.Aft = []spb.AFTType{spb.AFTType_ALL, spb.AFTType_ALL, spb.AFTType_IPV4, spb.AFTType_IPV6, spb.AFTType_MPLS, spb.AFTType_NEXTHOP, spb.AFTType_NEXTHOP_GROUP, spb.AFTType_MAC, spb.AFTType_INVALID, spb.AFTType_POLICY_FORWARDING}[r.IntN(10)]
			evs = append(evs, SEv{Kind: "get", Get: g, GetFail: -1})
			continue
		}
		c := l[r.IntN(len(l))]
		s := sess[c]
		if r.IntN(1000) < cfg.WClose {
			s.dead = true
			evs = append(evs, SEv{Kind: "close", C: c, CloseMode: []string{"eof", "fail"}[r.IntN(2)]})
			continue
		}
		viol := r.IntN(1000) < cfg.WViol
		mkParams := func(red spb.SessionParameters_ClientRedundancy, pers spb.SessionParameters_AFTPersistence, ack spb.SessionParameters_AFTResultStatusType) SEv {
			return SEv{Kind: "msg", C: c, MsgKind: "params", Req: &spb.ModifyRequest{Params: &spb.SessionParameters{Redundancy: red, Persistence: pers, AckType: ack}}}
		}
		if viol {
			switch r.IntN(9) {
			case 0:
				req, cls := genOps(c, 1)
				req.Params = &spb.SessionParameters{Redundancy: spb.SessionParameters_SINGLE_PRIMARY, Persistence: spb.SessionParameters_PRESERVE}
				if r.IntN(2) == 0 {
					// all three fields at once
					req.ElectionId = latticeID(r)
				}
				evs = append(evs, SEv{Kind: "msg", C: c, MsgKind: "multi", Req: req, Cls: cls})
			case 1:
				evs = append(evs, SEv{Kind: "msg", C: c, MsgKind: "multi", Req: &spb.ModifyRequest{Params: &spb.SessionParameters{Redundancy: spb.SessionParameters_SINGLE_PRIMARY, Persistence: spb.SessionParameters_PRESERVE}, ElectionId: latticeID(r)}})
			case 2:
				req, cls := genOps(c, 1)
				req.ElectionId = latticeID(r)
				evs = append(evs, SEv{Kind: "msg", C: c, MsgKind: "multi", Req: req, Cls: cls})
			case 3:
				evs = append(evs, SEv{Kind: "msg", C: c, MsgKind: "empty", Req: &spb.ModifyRequest{}})
			case 4:
				evs = append(evs, SEv{Kind: "msg", C: c, MsgKind: "elec", Req: &spb.ModifyRequest{ElectionId: &spb.Uint128{}}})
			case 5:
				// parameters in an unsupported or unusual combination, or at the wrong time
				red := []spb.SessionParameters_ClientRedundancy{0, 1, 1, 2}[r.IntN(4)]
				pers := []spb.SessionParameters_AFTPersistence{0, 1, 1, 2}[r.IntN(4)]
				ack := []spb.SessionParameters_AFTResultStatusType{0, 1, 2}[r.IntN(3)]
				evs = append(evs, mkParams(red, pers, ack))
			case 6:
				// an operation from a session in whatever phase, possibly without election id
				req, cls := genOps(c, 1+r.IntN(2))
				if r.IntN(2) == 0 {
					req.Operation[0].ElectionId = nil
				}
				evs = append(evs, SEv{Kind: "msg", C: c, MsgKind: "ops", Req: req, Cls: cls})
			case 7:
				evs = append(evs, SEv{Kind: "msg", C: c, MsgKind: "elec", Req: &spb.ModifyRequest{ElectionId: latticeID(r)}})
			default:
				// parameters that differ from the other sessions' in the ack type
				other := spb.SessionParameters_RIB_AND_FIB_ACK
				if ackMode == other {
					other = spb.SessionParameters_RIB_ACK
				}
				evs = append(evs, mkParams(spb.SessionParameters_SINGLE_PRIMARY, spb.SessionParameters_PRESERVE, other))
			}
			// the generator does not try to predict whether the session survives: treat it as
			// possibly dead only when it certainly is
			switch evs[len(evs)-1].MsgKind {
			case "multi", "empty":
				s.dead = true
			}
			continue
		}
		switch s.phase {
		case 0:
			evs = append(evs, mkParams(spb.SessionParameters_SINGLE_PRIMARY, spb.SessionParameters_PRESERVE, ackMode))
			s.phase = 1
		case 1:
			var id *spb.Uint128
			switch {
			case max == nil:
				id = latticeID(r)
				if id.High == 0 && id.Low == 0 {
					id.Low = 1
				}
			case r.IntN(4) == 0:
				id = latticeID(r)
				if id.High == 0 && id.Low == 0 {
					id.Low = 1
				}
			case r.IntN(5) == 0:
				id = max
			case s.last != nil && r.IntN(4) == 0:
				// repeat the id this session announced last (a reconnect-style re-announcement)
				id = s.last
			default:
				id = inc128(max, uint64(1+r.IntN(3)))
			}
			id = proto.Clone(id).(*spb.Uint128)
			evs = append(evs, SEv{Kind: "msg", C: c, MsgKind: "elec", Req: &spb.ModifyRequest{ElectionId: id}})
			s.last = id
			s.phase = 2
			if max == nil || cmp128(id, max) >= 0 {
				max = id
			}
		default:
			if r.IntN(1000) < cfg.WElec {
				s.phase = 1
				continue
			}
			n := 1 + r.IntN(cfg.BatchMax)
			req, cls := genOps(c, n)
			evs = append(evs, SEv{Kind: "msg", C: c, MsgKind: "ops", Req: req, Cls: cls})
			if cfg.GetAfterOps > 0 && r.IntN(1000) < cfg.GetAfterOps {
				// read back what was just programmed, before anything else changes it
				evs = append(evs, SEv{Kind: "get", Get: &spb.GetRequest{NetworkInstance: &spb.GetRequest_All{All: &spb.Empty{}}, Aft: spb.AFTType_ALL}, GetFail: -1})
			}
		}
	}
	if cfg.GetAfterOps > 0 {
		evs = append(evs, SEv{Kind: "get", Get: &spb.GetRequest{NetworkInstance: &spb.GetRequest_All{All: &spb.Empty{}}, Aft: spb.AFTType_ALL}, GetFail: -1})
	}
	return evs
}

func (s *shadow) knownNI(p *Pools, ni string) bool {
	for _, k := range p.Known {
		if k == ni {
			return true
		}
	}
	return false
}

func encNiSel(name *string, all bool) string {
	switch {
	case all:
		return "all"
	case name != nil:
		return "name:" + S(*name)
	}
	return "unset"
}

func flushReason(err error) (int, string) {
	if err == nil {
		return 0, "-"
	}
	st, _ := statusFromError(err)
	reason := "-"
	for _, d := range st.Details() {
		if fd, ok := d.(*spb.FlushResponseError); ok {
			reason = fmt.Sprint(int(fd.GetStatus()))
		}
	}
	return int(st.Code()), reason
}

// RunSrvHistory executes evs against a fresh real server.
func RunSrvHistory(name string, cfg *SrvGenCfg, evs []SEv) (*Trace, error) {
	t := &Trace{}
	t.Add("begin %s", name)
	h, err := NewSrvH(&cfg.Srv)
	if err != nil {
		return t, err
	}
	if cfg.Srv.NoCheck {
		t.Add("srv.new %s fwd=%s hook=%s %s check=0", S(cfg.Srv.Default), B(cfg.Srv.Fwd), B(cfg.Srv.Hook), LS(cfg.Srv.VRFs))
	} else {
		t.Add("srv.new %s fwd=%s hook=%s %s", S(cfg.Srv.Default), B(cfg.Srv.Fwd), B(cfg.Srv.Hook), LS(cfg.Srv.VRFs))
	}
	if cfg.Srv.InjectElec != nil {
		t.Add("srv.inject %s", encElec(cfg.Srv.InjectElec))
	}
	if err := h.ObsServer(t); err != nil {
		return t, err
	}
	defer func() {
		for c := range h.sess {
			h.Close(c, "eof")
		}
	}()
	for _, e := range evs {
		hang := false
		crashed := ""
		func() {
			defer func() {
				if p := recover(); p != nil {
					crashed = fmt.Sprint(p)
				}
			}()
			switch e.Kind {
			case "connect":
				if err := h.Connect(e.C); err != nil {
					t.Add("srv.connect %d => err", e.C)
					hang = true
					return
				}
				t.Add("srv.connect %d", e.C)
			case "addni":
				err := h.S.AddNetworkInstance(e.NI)
				t.Add("srv.addni %s => %s", S(e.NI), B(err == nil))
			case "close":
				if f := h.sess[e.C]; f == nil || f.ended {
					return
				}
				o := h.Close(e.C, e.CloseMode)
				t.Add("srv.close %d %s => %s", e.C, e.CloseMode, encOutcome(o))
				hang = o.Hang
			case "msg":
				if f := h.sess[e.C]; f == nil || f.ended {
					return
				}
				o := h.Send(e.C, e.Req)
				var in string
				switch e.MsgKind {
				case "params":
					pr := e.Req.GetParams()
					in = fmt.Sprintf("params %d %d %d", int(pr.GetRedundancy()), int(pr.GetPersistence()), int(pr.GetAckType()))
				case "elec":
					in = "elec " + encElec(e.Req.GetElectionId())
				case "ops":
					parts := []string{fmt.Sprintf("ops %d", len(e.Req.GetOperation()))}
					for i, op := range e.Req.GetOperation() {
						c1 := ""
						if i < len(e.Cls) {
							c1 = e.Cls[i]
						}
						parts = append(parts, Describe(op, c1).Enc())
					}
					in = strings.Join(parts, " ; ")
				default:
					in = e.MsgKind
				}
				t.Add("srv.msg %d %s => %s", e.C, in, encOutcome(o))
				hang = o.Hang
			case "cutmid":
				if f := h.sess[e.C]; f == nil || f.ended {
					return
				}
				o := h.CutMid(e.C, e.Req, e.J, e.CloseMode)
				parts := []string{fmt.Sprintf("%d", len(e.Req.GetOperation()))}
				for _, op := range e.Req.GetOperation() {
					parts = append(parts, Describe(op, "").Enc())
				}
				t.Add("srv.cutmid %d %d %s %s => %s", e.C, e.J, e.CloseMode, strings.Join(parts, " ; "), encOutcome(o))
				hang = o.Hang
			case "flush":
				var name *string
				all := false
				switch v := e.Flush.GetNetworkInstance().(type) {
				case *spb.FlushRequest_All:
					all = true
				case *spb.FlushRequest_Name:
					name = &v.Name
				}
				el := "unset"
				switch v := e.Flush.GetElection().(type) {
				case *spb.FlushRequest_Id:
					el = "id:" + encElec(v.Id)
				case *spb.FlushRequest_Override:
					el = "override"
				}
				resp, err, hg := h.Flush(e.Flush)
				if hg {
					t.Add("srv.flush %s %s => hang", encNiSel(name, all), el)
					hang = true
					return
				}
				code, reason := flushReason(err)
				res := "-"
				if resp != nil {
					res = fmt.Sprint(int(resp.GetResult()))
				}
				t.Add("srv.flush %s %s => %d %s %s", encNiSel(name, all), el, code, reason, res)
			case "get":
				var name *string
				all := false
				switch v := e.Get.GetNetworkInstance().(type) {
				case *spb.GetRequest_All:
					all = true
				case *spb.GetRequest_Name:
					name = &v.Name
				}
				resps, err, hg := h.Get(e.Get, e.GetFail)
				if hg {
					t.Add("srv.get %s %d %d => hang", encNiSel(name, all), int(e.Get.GetAft()), e.GetFail)
					hang = true
					return
				}
				code := 0
				if err != nil {
					st, _ := statusFromError(err)
					code = int(st.Code())
				}
				line := fmt.Sprintf("srv.get %s %d %d => %d %d", encNiSel(name, all), int(e.Get.GetAft()), e.GetFail, code, len(resps))
				for _, gr := range resps {
					for _, en := range gr.GetEntry() {
						line += " | " + encAFTEntry(en)
					}
				}
				t.Add("%s", line)
				// rebuilding a RIB from a complete Get(all, ALL) reproduces the source RIB
				if all && e.GetFail < 0 && e.Get.GetAft() == spb.AFTType_ALL && err == nil {
					back, berr := rib.FromGetResponses(cfg.Srv.Default, resps)
					if berr != nil {
						t.Add("srv.rebuild 0 %s", S(berr.Error()))
					} else {
						lb, _, e1 := entsLine(back)
						ls, _, e2 := entsLine(h.S.VerifRIB())
						switch {
						case e1 != nil || e2 != nil:
							t.Add("srv.rebuild 0 %s", S(fmt.Sprint(e1, e2)))
						case lb != ls:
							t.Add("srv.rebuild 0 %s", S("contents differ"))
						default:
							t.Add("srv.rebuild 1 %s", S(""))
						}
					}
				}
			}
		}()
		if crashed != "" {
			t.Add("crash - %s", S(crashed))
			break
		}
		if hang {
			t.Add("hang")
			break
		}
		if err := h.ObsServer(t); err != nil {
			if errors.Is(err, errHang) {
				break
			}
			return t, err
		}
	}
	t.Add("end")
	return t, nil
}

// encAFTEntry renders a Get response entry as "'ni key payload".
func encAFTEntry(e *spb.AFTEntry) string {
	op := &spb.AFTOperation{NetworkInstance: e.GetNetworkInstance()}
	switch v := e.GetEntry().(type) {
	case *spb.AFTEntry_Ipv4:
		op.Entry = &spb.AFTOperation_Ipv4{Ipv4: v.Ipv4}
	case *spb.AFTEntry_Ipv6:
		op.Entry = &spb.AFTOperation_Ipv6{Ipv6: v.Ipv6}
	case *spb.AFTEntry_Mpls:
		op.Entry = &spb.AFTOperation_Mpls{Mpls: v.Mpls}
	case *spb.AFTEntry_NextHopGroup:
		op.Entry = &spb.AFTOperation_NextHopGroup{NextHopGroup: v.NextHopGroup}
	case *spb.AFTEntry_NextHop:
		op.Entry = &spb.AFTOperation_NextHop{NextHop: v.NextHop}
	}
	m := Describe(op, "")
	return fmt.Sprintf("%s %s %s", S(m.NI), m.Key.Enc(), m.PL.Enc())
}

var _ = aftpb.Afts{}
