package main

// "recon" mode (property C15): pairs of reference-closed RIBs (intended, target) are built on
// real rib.RIBs; the real reconciler computes its operations; they are applied to the target in
// the documented order through AddEntry / DeleteEntry with reference checking on; the contents
// of both sides are compared; a second reconciliation must be empty. The Lean driver compares
// the nine buckets with the model's (as sets), checks the ids, and evaluates every clause of the
// statement on the implementation's own observations.

import (
	"context"
	"fmt"
	"math/rand/v2"
	"sort"
	"strings"
	"sync/atomic"

	"net"
	"time"

	"github.com/openconfig/gribigo/rib"
	"github.com/openconfig/gribigo/rib/reconciler"
	"github.com/openconfig/gribigo/server"
	"google.golang.org/grpc"
	"google.golang.org/grpc/credentials/insecure"
	"google.golang.org/grpc/test/bufconn"

	aftpb "github.com/openconfig/gribi/v1/proto/gribi_aft"
	spb "github.com/openconfig/gribi/v1/proto/service"
	wpb "github.com/openconfig/ygot/proto/ywrapper"
)

var reconNIs = []string{"DEFAULT", "VRF1", "VRF2", "VRF3"}

// reconSide describes which candidate entries one side holds and in which variant.
type reconSide struct {
	nis []string
	// per NI: next-hop index -> variant (0 = absent); group id -> variant; …
	nh, nhg map[string]map[uint64]int
	top     map[string]map[string]int // key "v4:1.0.0.0/8" etc.
}

func reconNHPayload(idx uint64, variant int) *aftpb.Afts_NextHop {
	nh := &aftpb.Afts_NextHop{IpAddress: sv(fmt.Sprintf("10.%d.0.%d", variant, idx))}
	switch variant {
	case 2:
		nh.MacAddress = sv("00:00:5e:00:53:01")
	case 3:
		nh.PopTopLabel = &wpb.BoolValue{Value: false}
	case 4:
		nh.PopTopLabel = &wpb.BoolValue{Value: true}
	}
	return nh
}

// build installs the side's entries on a fresh reference-checking RIB in dependency order;
// whatever does not resolve is simply not part of the RIB (no forward references, nothing held).
func (s *reconSide) build() (*rib.RIB, error) {
	r := rib.New(s.nis[0], rib.DisableForwardReferences())
	for _, ni := range s.nis[1:] {
		if err := r.AddNetworkInstance(ni); err != nil {
			return nil, err
		}
	}
	id := uint64(1000000)
	add := func(op *spb.AFTOperation) {
		id++
		op.Id = id
		op.Op = spb.AFTOperation_ADD
		r.AddEntry(op.NetworkInstance, op)
	}
	known := map[string]bool{}
	for _, ni := range s.nis {
		known[ni] = true
	}
	for _, ni := range s.nis {
		for _, idx := range sortedU(s.nh[ni]) {
			if v := s.nh[ni][idx]; v > 0 {
				add(&spb.AFTOperation{NetworkInstance: ni, Entry: &spb.AFTOperation_NextHop{NextHop: &aftpb.Afts_NextHopKey{Index: idx, NextHop: reconNHPayload(idx, v)}}})
			}
		}
	}
	for _, ni := range s.nis {
		for _, g := range sortedU(s.nhg[ni]) {
			v := s.nhg[ni][g]
			if v == 0 {
				continue
			}
			// variant decides which next-hops the group lists (and their weights)
			members := [][]uint64{nil, {1}, {1, 2}, {2, 3}, {3}, {1, 2, 3, 4}}[v]
			grp := &aftpb.Afts_NextHopGroup{}
			for _, m := range members {
				grp.NextHop = append(grp.NextHop, &aftpb.Afts_NextHopGroup_NextHopKey{Index: m, NextHop: &aftpb.Afts_NextHopGroup_NextHop{Weight: uv(uint64(v))}})
			}
			add(&spb.AFTOperation{NetworkInstance: ni, Entry: &spb.AFTOperation_NextHopGroup{NextHopGroup: &aftpb.Afts_NextHopGroupKey{Id: g, NextHopGroup: grp}}})
		}
	}
	for _, ni := range s.nis {
		keys := []string{}
		for k := range s.top[ni] {
			keys = append(keys, k)
		}
		sort.Strings(keys)
		for _, k := range keys {
			v := s.top[ni][k]
			if v == 0 {
				continue
			}
			// variant: group 1..3 in the entry's own instance (1..3), or group 1/2 of DEFAULT (4, 5);
			// 6..10 the same with a decapsulate header (IPv4 / IPv6 entries) or a popped label stack
			// (label entries); 11..15 the same with entry metadata
			extra := (v - 1) / 5
			v = 1 + (v-1)%5
			grp := uint64(1 + (v-1)%3)
			gni := ""
			if v >= 4 {
				grp, gni = uint64(v-3), s.nis[0]
			}
			var gniV *wpb.StringValue
			if gni != "" {
				gniV = sv(gni)
			}
			op := &spb.AFTOperation{NetworkInstance: ni}
			kind, val, _ := strings.Cut(k, ":")
			switch kind {
			case "v4":
				op.Entry = &spb.AFTOperation_Ipv4{Ipv4: &aftpb.Afts_Ipv4EntryKey{Prefix: val, Ipv4Entry: &aftpb.Afts_Ipv4Entry{NextHopGroup: uv(grp), NextHopGroupNetworkInstance: gniV}}}
			case "v6":
				op.Entry = &spb.AFTOperation_Ipv6{Ipv6: &aftpb.Afts_Ipv6EntryKey{Prefix: val, Ipv6Entry: &aftpb.Afts_Ipv6Entry{NextHopGroup: uv(grp), NextHopGroupNetworkInstance: gniV}}}
			default:
				var l uint64
				fmt.Sscan(val, &l)
				op.Entry = &spb.AFTOperation_Mpls{Mpls: &aftpb.Afts_LabelEntryKey{Label: &aftpb.Afts_LabelEntryKey_LabelUint64{LabelUint64: l}, LabelEntry: &aftpb.Afts_LabelEntry{NextHopGroup: uv(grp), NextHopGroupNetworkInstance: gniV}}}
			}
			switch e := op.Entry.(type) {
			case *spb.AFTOperation_Ipv4:
				if extra == 1 {
					e.Ipv4.Ipv4Entry.DecapsulateHeader = hdrIPV4
				} else if extra == 2 {
					e.Ipv4.Ipv4Entry.EntryMetadata = &wpb.BytesValue{Value: []byte("meta")}
				}
			case *spb.AFTOperation_Ipv6:
				if extra == 1 {
					e.Ipv6.Ipv6Entry.DecapsulateHeader = hdrMPLS
				} else if extra == 2 {
					e.Ipv6.Ipv6Entry.EntryMetadata = &wpb.BytesValue{Value: []byte("meta")}
				}
			case *spb.AFTOperation_Mpls:
				if extra == 1 {
					e.Mpls.LabelEntry.PoppedMplsLabelStack = []*aftpb.Afts_LabelEntry_PoppedMplsLabelStackUnion{{PoppedMplsLabelStackUint64: 300}}
				} else if extra == 2 {
					e.Mpls.LabelEntry.EntryMetadata = &wpb.BytesValue{Value: []byte("meta")}
				}
			}
			add(op)
		}
	}
	return r, nil
}

func sortedU(m map[uint64]int) []uint64 {
	o := []uint64{}
	for k := range m {
		o = append(o, k)
	}
	sort.Slice(o, func(i, j int) bool { return o[i] < o[j] })
	return o
}

var reconTops = []string{"v4:1.0.0.0/8", "v4:2.0.0.0/8", "v6:2001:db8::/32", "mpls:100", "mpls:200"}

// genReconPair draws the two sides: per candidate entry, equal on both sides / differing in
// payload / on one side only / on neither.
func genReconPair(r *rand.Rand, equal bool) (*reconSide, *reconSide) {
	nI := 1 + r.IntN(3)
	nT := nI + r.IntN(len(reconNIs)-nI+1) // the target has every instance of the intended RIB, maybe more
	mk := func(n int) *reconSide {
		return &reconSide{nis: reconNIs[:n], nh: map[string]map[uint64]int{}, nhg: map[string]map[uint64]int{}, top: map[string]map[string]int{}}
	}
	I, T := mk(nI), mk(nT)
	if equal {
		T = mk(nI)
	}
	draw := func(variants int) (int, int) {
		if equal {
			v := r.IntN(variants + 1)
			return v, v
		}
		switch r.IntN(6) {
		case 0:
			return 0, 0
		case 1:
			return 1 + r.IntN(variants), 0
		case 2:
			return 0, 1 + r.IntN(variants)
		case 3:
			return 1 + r.IntN(variants), 1 + r.IntN(variants)
		default:
			v := 1 + r.IntN(variants)
			return v, v
		}
	}
	for _, ni := range T.nis {
		I.nh[ni], T.nh[ni] = map[uint64]int{}, map[uint64]int{}
		I.nhg[ni], T.nhg[ni] = map[uint64]int{}, map[uint64]int{}
		I.top[ni], T.top[ni] = map[string]int{}, map[string]int{}
		inI := false
		for _, x := range I.nis {
			if x == ni {
				inI = true
			}
		}
		for idx := uint64(1); idx <= 4; idx++ {
			a, b := draw(4)
			if inI {
				I.nh[ni][idx] = a
			}
			T.nh[ni][idx] = b
		}
		for g := uint64(1); g <= 3; g++ {
			a, b := draw(5)
			if inI {
				I.nhg[ni][g] = a
			}
			T.nhg[ni][g] = b
		}
		for _, k := range reconTops {
			a, b := draw(15)
			if inI {
				I.top[ni][k] = a
			}
			T.top[ni][k] = b
		}
	}
	return I, T
}

// ribViaGet streams every instance of r as GetResponses (as Server.Get does) and rebuilds a RIB
// from them with rib.FromGetResponses.
func ribViaGet(r *rib.RIB, dflt string) (*rib.RIB, error) {
	resps := []*spb.GetResponse{}
	for _, ni := range r.KnownNetworkInstances() {
		niR, ok := r.NetworkInstanceRIB(ni)
		if !ok {
			continue
		}
		msgCh := make(chan *spb.GetResponse)
		stopCh := make(chan struct{})
		errCh := make(chan error, 1)
		go func() {
			errCh <- niR.GetRIB(map[spb.AFTType]bool{spb.AFTType_ALL: true}, msgCh, stopCh)
			close(msgCh)
		}()
		for m := range msgCh {
			resps = append(resps, m)
		}
		if err := <-errCh; err != nil {
			return nil, err
		}
	}
	return rib.FromGetResponses(dflt, resps, rib.DisableRIBCheckFn())
}

// ribViaRemote serves r from a real server (server.NewFake + InjectRIB) over an in-memory gRPC
// connection and reads it back the way a remote reconciliation target is read: RemoteRIB.Get.
func ribViaRemote(r *rib.RIB, dflt string) (*rib.RIB, error) {
	a, _, err := ribViaRemote2(r, nil, dflt)
	return a, err
}

// ribViaRemote2: the same RemoteRIB read a second time after the server's RIB has been replaced by
// next (when next is not nil): what it returns is what the server holds then.
func ribViaRemote2(r, next *rib.RIB, dflt string) (*rib.RIB, *rib.RIB, error) {
	fs, err := server.NewFake()
	if err != nil {
		return nil, nil, err
	}
	fs.InjectRIB(r)
	lis := bufconn.Listen(1 << 20)
	gs := grpc.NewServer()
	spb.RegisterGRIBIServer(gs, fs)
	go gs.Serve(lis)
	defer gs.Stop()
	conn, err := grpc.NewClient("passthrough:///bufnet", grpc.WithContextDialer(func(ctx context.Context, _ string) (net.Conn, error) { return lis.DialContext(ctx) }), grpc.WithTransportCredentials(insecure.NewCredentials()))
	if err != nil {
		return nil, nil, err
	}
	defer conn.Close()
	rr, err := reconciler.NewRemoteRIBWithStub(dflt, spb.NewGRIBIClient(conn))
	if err != nil {
		return nil, nil, err
	}
	ctx, cancel := context.WithTimeout(context.Background(), 20*time.Second)
	defer cancel()
	first, err := rr.Get(ctx)
	if err != nil || next == nil {
		return first, nil, err
	}
	fs.InjectRIB(next)
	second, err := rr.Get(ctx)
	return first, second, err
}

func reconCase(seed uint64, idx int) *CaseSpec {
	name := fmt.Sprintf("recon/%d/%d", seed, idx)
	run := func(keep []int) (*Trace, error) {
		r := rngFor(seed, idx)
		t := &Trace{}
		t.Add("begin %s", name)
		sI, sT := genReconPair(r, idx%10 == 9)
		I, err := sI.build()
		if err != nil {
			return t, err
		}
		T, err := sT.build()
		if err != nil {
			return t, err
		}
		base := uint64(r.IntN(3)) * 1000
		li, _, err := entsLine(I)
		if err != nil {
			return t, err
		}
		lt, _, err := entsLine(T)
		if err != nil {
			return t, err
		}
		t.Add("rc.new %d %s %s %s", base, S(sT.nis[0]), LS(sI.nis), LS(sT.nis))
		t.Add("rc.I %s", li)
		t.Add("rc.T %s", lt)
		// the path a remote target takes: contents -> GetResponses -> rib.FromGetResponses; it must
		// give back the same contents (instances without entries do not appear in a Get)
		if back, err := ribViaGet(T, sT.nis[0]); err != nil {
			t.Add("rc.roundtrip 0 %s", S(err.Error()))
		} else {
			lb, _, err := entsLine(back)
			if err != nil {
				return t, err
			}
			same := "1"
			if lb != lt {
				same = "0"
			}
			t.Add("rc.roundtrip %s %s", same, S(""))
		}
		if idx%2 == 0 {
			// the same through a real server and reconciler.RemoteRIB
			if back, back2, err := ribViaRemote2(T, I, sT.nis[0]); err != nil {
				t.Add("rc.roundtrip 0 %s", S("RemoteRIB.Get: "+err.Error()))
			} else {
				if back2 != nil {
					lb2, _, err2 := entsLine(back2)
					li2, _, err3 := entsLine(I)
					if err2 == nil && err3 == nil && lb2 != li2 {
						t.Add("rc.roundtrip 0 %s", S("RemoteRIB.Get, read again after the server's RIB was replaced, does not return what the server holds now"))
					}
				}
				lb, _, err := entsLine(back)
				if err != nil {
					return t, err
				}
				same, msg := "1", ""
				if lb != lt {
					same, msg = "0", "RemoteRIB.Get of a server holding the target returns other contents"
				}
				t.Add("rc.roundtrip %s %s", same, S(msg))
			}
		}
		var id atomic.Uint64
		id.Store(base)
		rec := reconciler.New(reconciler.NewLocalRIB(I), reconciler.NewLocalRIB(T))
		ops, err := rec.Reconcile(context.Background(), &id)
		if err != nil {
			t.Add("rc.error %s", S(err.Error()))
			t.Add("end")
			return t, nil
		}
		bucket := func(name string, l []*spb.AFTOperation) {
			parts := []string{fmt.Sprint(len(l))}
			for _, op := range l {
				parts = append(parts, Describe(op, "").Enc())
			}
			t.Add("rc.bucket %s %s", name, strings.Join(parts, " ; "))
		}
		bucket("add.nh", ops.Add.NH)
		bucket("add.nhg", ops.Add.NHG)
		bucket("add.top", ops.Add.TopLevel)
		bucket("replace.nh", ops.Replace.NH)
		bucket("replace.nhg", ops.Replace.NHG)
		bucket("replace.top", ops.Replace.TopLevel)
		bucket("delete.top", ops.Delete.TopLevel)
		bucket("delete.nhg", ops.Delete.NHG)
		bucket("delete.nh", ops.Delete.NH)
		// the documented order
		seq := [][]*spb.AFTOperation{ops.Add.NH, ops.Add.NHG, ops.Add.TopLevel, ops.Replace.NH, ops.Replace.NHG, ops.Replace.TopLevel, ops.Delete.TopLevel, ops.Delete.NHG, ops.Delete.NH}
		for _, l := range seq {
			for _, op := range l {
				var oks, fails []*rib.OpResult
				var err error
				if op.Op == spb.AFTOperation_DELETE {
					oks, fails, err = T.DeleteEntry(op.NetworkInstance, op)
				} else {
					oks, fails, err = T.AddEntry(op.NetworkInstance, op)
				}
				t.Add("rc.apply %s => %s %s %s", Describe(op, "").Enc(), L(resIDs(oks)), L(resIDs(fails)), B(err != nil))
			}
		}
		lf, _, err := entsLine(T)
		if err != nil {
			return t, err
		}
		t.Add("rc.final %s", lf)
		t.Add("rc.pend %s", L(T.VerifPendingIDs()))
		var id2 atomic.Uint64
		id2.Store(base)
		again, err := reconciler.New(reconciler.NewLocalRIB(I), reconciler.NewLocalRIB(T)).Reconcile(context.Background(), &id2)
		n := -1
		if err == nil {
			n = len(again.Add.NH) + len(again.Add.NHG) + len(again.Add.TopLevel) + len(again.Replace.NH) + len(again.Replace.NHG) + len(again.Replace.TopLevel) + len(again.Delete.NH) + len(again.Delete.NHG) + len(again.Delete.TopLevel)
		}
		t.Add("rc.again %d", n)
		// a second reconciliation of the same target, now towards an empty RIB with the same
		// instances: whatever the first round left behind in the target's bookkeeping (reference
		// counters) shows when everything has to be taken down again, in the documented order
		E := rib.New(sT.nis[0], rib.DisableForwardReferences())
		for _, ni := range sT.nis[1:] {
			E.AddNetworkInstance(ni)
		}
		var id3 atomic.Uint64
		id3.Store(base + 500000)
		down, err := reconciler.New(reconciler.NewLocalRIB(E), reconciler.NewLocalRIB(T)).Reconcile(context.Background(), &id3)
		if err != nil {
			t.Add("rc.round2 -1 0 0")
		} else {
			nops, nfailed := 0, 0
			for _, l := range [][]*spb.AFTOperation{down.Add.NH, down.Add.NHG, down.Add.TopLevel, down.Replace.NH, down.Replace.NHG, down.Replace.TopLevel, down.Delete.TopLevel, down.Delete.NHG, down.Delete.NH} {
				for _, op := range l {
					nops++
					var oks, fails []*rib.OpResult
					var err error
					if op.Op == spb.AFTOperation_DELETE {
						oks, fails, err = T.DeleteEntry(op.NetworkInstance, op)
					} else {
						oks, fails, err = T.AddEntry(op.NetworkInstance, op)
					}
					if err != nil || len(fails) != 0 || len(oks) != 1 {
						nfailed++
					}
				}
			}
			lf2, _, err := entsLine(T)
			if err != nil {
				return t, err
			}
			left := 0
			fmt.Sscan(lf2, &left) // the line starts with the number of entries
			t.Add("rc.round2 %d %d %d", nops, nfailed, left)
		}
		t.Add("end")
		return t, nil
	}
	return &CaseSpec{Name: name, N: 1, Run: run, Inputs: func() []string { return []string{name} }}
}

func init() {
	modes["recon"] = &Mode{
		Name: "recon",
		Gen:  func(seed uint64, idx int, tier string) *CaseSpec { return reconCase(seed, idx) },
		Count: func(tier string) int {
			if tier == "thorough" {
				return 3000
			}
			return 300
		},
		Required: []string{"rc.add", "rc.replace", "rc.delete", "rc.equal", "rc.targetonly-ni", "rc.xni", "rc.converged", "rc.roundtrip"},
		Atomic:   true,
	}
	props["C15"] = &PropSpec{Mode: "recon", Diffs: []string{"rc."}, Monitors: []string{"c15"}}
}
