package main

import (
	"fmt"
	"math/rand/v2"

	aftpb "github.com/openconfig/gribi/v1/proto/gribi_aft"
	spb "github.com/openconfig/gribi/v1/proto/service"
)

func srvGenCfg(r *rand.Rand, tier, flavour string) *SrvGenCfg {
	p := DefaultPools()
	p.NIs = []string{"DEFAULT", "VRF1"}
	p.V4, p.V6, p.Labels = p.V4[:3], p.V6[:2], p.Labels[:2]
	p.NHGs, p.NHs = p.NHGs[:3], p.NHs[:3]
	cfg := &SrvGenCfg{
		Srv:   SrvCfg{Fwd: r.IntN(4) != 0, Hook: r.IntN(2) == 0, VRFs: []string{"VRF1"}, Default: "DEFAULT", NoCheck: (flavour == "flushget" || flavour == "answers" || flavour == "malformed") && r.IntN(15) == 0},
		Pools: p, Steps: 45, MaxSess: 3, WViol: 40, WStamp: 120, WMalform: 40, WFlush: 25, WGet: 40, WClose: 25, WElec: 60, BatchMax: 3, FIB: 2,
	}
	if tier == "thorough" {
		cfg.Steps = 70
	}
	if (flavour == "election" || flavour == "flushget") && r.IntN(8) == 0 {
		// a server seeded with an election id before any session exists (server.NewFake,
		// InjectElectionID): the id is a floor for every later announcement, and nobody is primary
		cfg.Srv.InjectElec = &spb.Uint128{High: uint64(1 + r.IntN(2)), Low: uint64(r.IntN(3))}
	}
	switch flavour {
	case "election":
		cfg.MaxSess, cfg.WElec, cfg.WStamp, cfg.WClose = 4, 250, 250, 40
	case "answers":
		cfg.BatchMax, cfg.WElec, cfg.WStamp, cfg.WMalform = 6, 120, 60, 60
		cfg.Srv.Fwd = true
	case "protocol":
		cfg.WViol, cfg.MaxSess, cfg.WClose = 250, 3, 60
	case "malformed":
		cfg.WMalform, cfg.WViol = 400, 60
		cfg.WFlush, cfg.WGet, cfg.BadNI = 60, 60, true
	case "flushget":
		cfg.WFlush, cfg.WGet, cfg.WViol = 80, 120, 10
		cfg.GetAfterOps = 250
		cfg.WAddNI = 25
		cfg.WReadd = 150
		p.Rich = true
	}
	return cfg
}

func srvCase(name string, cfg *SrvGenCfg, evs []SEv) *CaseSpec {
	return &CaseSpec{Name: name, N: len(evs), Run: func(keep []int) (*Trace, error) {
		sub := make([]SEv, 0, len(keep))
		for _, k := range keep {
			if k < len(evs) {
				sub = append(sub, evs[k])
			}
		}
		return RunSrvHistory(name, cfg, sub)
	}, Inputs: func() []string {
		o := []string{fmt.Sprintf("srv.new %s fwd=%s hook=%s %s check=%s", S(cfg.Srv.Default), B(cfg.Srv.Fwd), B(cfg.Srv.Hook), LS(cfg.Srv.VRFs), B(!cfg.Srv.NoCheck))}
		for _, e := range evs {
			switch e.Kind {
			case "msg":
				o = append(o, fmt.Sprintf("srv.msg %d %s # %s", e.C, e.MsgKind, prototextLine(e.Req)))
			case "flush":
				o = append(o, "srv.flush # "+prototextLine(e.Flush))
			case "get":
				o = append(o, "srv.get # "+prototextLine(e.Get))
			case "addni":
				o = append(o, "srv.addni "+e.NI)
			default:
				o = append(o, fmt.Sprintf("srv.%s %d %s", e.Kind, e.C, e.CloseMode))
			}
		}
		return o
	}}
}

func regSrvMode(name, flavour string, quick, thorough int, required []string) {
	modes[name] = &Mode{
		Name: name,
		Gen: func(seed uint64, idx int, tier string) *CaseSpec {
			r := rngFor(seed, idx)
			cfg := srvGenCfg(r, tier, flavour)
			evs := GenSrvHistory(r, cfg)
			return srvCase(fmt.Sprintf("%s/%d/%d", name, seed, idx), cfg, evs)
		},
		Count: func(tier string) int {
			if tier == "thorough" {
				return thorough
			}
			return quick
		},
		Required: required,
	}
}

// srvAnswersCorpus: hand-written histories named in the text of C06 (and in the defects found):
// a held REPLACE whose key is deleted before it resolves; an operation without a network
// instance in the middle of a batch; a cascade on a FIB-ack session; a handover with a held
// operation of the previous primary.
func srvAnswersCorpus() []*CaseSpec {
	A, R, D := spb.AFTOperation_ADD, spb.AFTOperation_REPLACE, spb.AFTOperation_DELETE
	mk := func(fib bool, build func(b *cutBuilder, c int)) []SEv {
		b := &cutBuilder{next: 1}
		c := b.connect()
		b.params(c, fib)
		b.announce(c)
		build(b, c)
		return b.evs
	}
	op := func(b *cutBuilder, ty spb.AFTOperation_Operation, ni string, set func(o *spb.AFTOperation)) *spb.AFTOperation {
		b.opID++
		o := &spb.AFTOperation{Id: b.opID, NetworkInstance: ni, Op: ty, ElectionId: b.id()}
		set(o)
		return o
	}
	nh := func(i uint64) func(o *spb.AFTOperation) {
		return func(o *spb.AFTOperation) {
			o.Entry = &spb.AFTOperation_NextHop{NextHop: &aftpb.Afts_NextHopKey{Index: i, NextHop: &aftpb.Afts_NextHop{IpAddress: sv("10.0.0.1")}}}
		}
	}
	nhg := func(g, n uint64) func(o *spb.AFTOperation) {
		return func(o *spb.AFTOperation) {
			o.Entry = &spb.AFTOperation_NextHopGroup{NextHopGroup: &aftpb.Afts_NextHopGroupKey{Id: g, NextHopGroup: &aftpb.Afts_NextHopGroup{NextHop: []*aftpb.Afts_NextHopGroup_NextHopKey{{Index: n, NextHop: &aftpb.Afts_NextHopGroup_NextHop{Weight: uv(1)}}}}}}
		}
	}
	v4 := func(p string, g uint64) func(o *spb.AFTOperation) {
		return func(o *spb.AFTOperation) {
			o.Entry = &spb.AFTOperation_Ipv4{Ipv4: &aftpb.Afts_Ipv4EntryKey{Prefix: p, Ipv4Entry: &aftpb.Afts_Ipv4Entry{NextHopGroup: uv(g)}}}
		}
	}
	one := func(b *cutBuilder, c int, o *spb.AFTOperation) {
		b.ops(c, &spb.ModifyRequest{Operation: []*spb.AFTOperation{o}})
	}
	cfg := &SrvGenCfg{Srv: SrvCfg{Fwd: true, VRFs: []string{"VRF1"}, Default: "DEFAULT"}, Pools: DefaultPools()}
	out := []*CaseSpec{}
	for _, fib := range []bool{false, true} {
		fib := fib
		// held REPLACE whose key goes away, then further installs (D4)
		out = append(out, srvCase(fmt.Sprintf("srv.answers/corpus/held-replace-key-deleted/%s", B(fib)), cfg, mk(fib, func(b *cutBuilder, c int) {
			one(b, c, op(b, A, "DEFAULT", nh(1)))
			one(b, c, op(b, A, "DEFAULT", nhg(1, 1)))
			one(b, c, op(b, A, "DEFAULT", v4("1.0.0.0/8", 1)))
			one(b, c, op(b, R, "DEFAULT", v4("1.0.0.0/8", 5)))
			one(b, c, op(b, D, "DEFAULT", v4("1.0.0.0/8", 1)))
			one(b, c, op(b, A, "DEFAULT", nh(2)))
			one(b, c, op(b, A, "DEFAULT", nh(3)))
			one(b, c, op(b, A, "DEFAULT", nhg(5, 2)))
			one(b, c, op(b, A, "DEFAULT", nh(4)))
		})))
		// several held REPLACEs whose keys go away (they can only fail at the next retry) next to a
		// held group whose next-hop then arrives: whichever the retry walk meets first, the group
		// is answered in that cascade
		out = append(out, srvCase(fmt.Sprintf("srv.answers/corpus/failing-held-next-to-resolvable-held/%s", B(fib)), cfg, mk(fib, func(b *cutBuilder, c int) {
			one(b, c, op(b, A, "DEFAULT", nh(1)))
			one(b, c, op(b, A, "DEFAULT", nhg(1, 1)))
			for i := 0; i < 6; i++ {
				one(b, c, op(b, A, "DEFAULT", v4(fmt.Sprintf("10.%d.0.0/16", i), 1)))
			}
			for i := 0; i < 6; i++ {
				one(b, c, op(b, R, "DEFAULT", v4(fmt.Sprintf("10.%d.0.0/16", i), 7)))
			}
			for i := 0; i < 6; i++ {
				one(b, c, op(b, D, "DEFAULT", v4(fmt.Sprintf("10.%d.0.0/16", i), 1)))
			}
			one(b, c, op(b, A, "DEFAULT", nhg(3, 9)))
			one(b, c, op(b, A, "DEFAULT", nh(9)))
			one(b, c, op(b, A, "DEFAULT", nh(4)))
		})))
		// an operation without a network instance in the middle of a batch (D3)
		out = append(out, srvCase(fmt.Sprintf("srv.answers/corpus/empty-ni-mid-batch/%s", B(fib)), cfg, mk(fib, func(b *cutBuilder, c int) {
			b.ops(c, &spb.ModifyRequest{Operation: []*spb.AFTOperation{op(b, A, "DEFAULT", nh(1)), op(b, A, "", nh(2)), op(b, A, "DEFAULT", nh(3)), op(b, A, "NO-SUCH-NI", nh(4)), op(b, A, "DEFAULT", nh(5))}})
		})))
		// a cascade: prefix and group held, resolved by the next-hop
		out = append(out, srvCase(fmt.Sprintf("srv.answers/corpus/cascade/%s", B(fib)), cfg, mk(fib, func(b *cutBuilder, c int) {
			one(b, c, op(b, A, "DEFAULT", v4("1.0.0.0/8", 1)))
			one(b, c, op(b, A, "DEFAULT", nhg(1, 1)))
			one(b, c, op(b, A, "DEFAULT", nh(1)))
			one(b, c, op(b, D, "DEFAULT", v4("1.0.0.0/8", 1)))
		})))
		// a wide cascade: twelve prefixes and their group held, all resolved by one next-hop (the
		// response then carries more than two dozen results with FIB acknowledgements: the order
		// of the two acknowledgements of one operation must survive whatever is done to the list)
		// (widths around the powers of two as well: a response that is cut into pieces must lose none)
		for _, width := range []int{12, 31, 32, 47, 63, 64} {
			width := width
			out = append(out, srvCase(fmt.Sprintf("srv.answers/corpus/wide-cascade-%d/%s", width, B(fib)), cfg, mk(fib, func(b *cutBuilder, c int) {
				one(b, c, op(b, A, "DEFAULT", nh(1)))
				for i := 0; i < width; i++ {
					one(b, c, op(b, A, "DEFAULT", v4(fmt.Sprintf("10.%d.0.0/16", i), 1)))
				}
				one(b, c, op(b, A, "DEFAULT", nhg(1, 1)))
			})))
		}
		out = append(out, srvCase(fmt.Sprintf("srv.answers/corpus/wide-cascade/%s", B(fib)), cfg, mk(fib, func(b *cutBuilder, c int) {
			for i := 0; i < 12; i++ {
				one(b, c, op(b, A, "DEFAULT", v4(fmt.Sprintf("10.%d.0.0/16", i), 1)))
			}
			one(b, c, op(b, A, "DEFAULT", nhg(1, 1)))
			one(b, c, op(b, A, "DEFAULT", nh(1)))
		})))
		// forward references disallowed: a rejected forward reference is answered FAILED once and
		// never again, whatever is installed later
		out = append(out, srvCase(fmt.Sprintf("srv.answers/corpus/nofwd-rejected-then-installs/%s", B(fib)), &SrvGenCfg{Srv: SrvCfg{Fwd: false, VRFs: []string{"VRF1"}, Default: "DEFAULT"}, Pools: DefaultPools()}, mk(fib, func(b *cutBuilder, c int) {
			one(b, c, op(b, A, "DEFAULT", v4("1.0.0.0/8", 7)))
			one(b, c, op(b, A, "DEFAULT", v4("2.0.0.0/8", 7)))
			one(b, c, op(b, A, "DEFAULT", nh(1)))
			one(b, c, op(b, A, "DEFAULT", nhg(7, 1)))
			one(b, c, op(b, A, "DEFAULT", nh(2)))
		})))
		// the same, dependency-reversed, in one request
		out = append(out, srvCase(fmt.Sprintf("srv.answers/corpus/wide-cascade-one-request/%s", B(fib)), cfg, mk(fib, func(b *cutBuilder, c int) {
			ops := []*spb.AFTOperation{}
			for i := 0; i < 12; i++ {
				ops = append(ops, op(b, A, "VRF1", v4(fmt.Sprintf("10.%d.0.0/16", i), 1)))
			}
			ops = append(ops, op(b, A, "VRF1", nhg(1, 1)), op(b, A, "VRF1", nh(1)))
			b.ops(c, &spb.ModifyRequest{Operation: ops})
		})))
	}
	return out
}

// srvMalformedCorpus: a malformed operation that carries the id of an operation that is held (a
// successor that numbers its operations from the start again, or a client reusing an id): it is
// answered FAILED and the held operation stays held.
func srvMalformedCorpus() []*CaseSpec {
	cfg := &SrvGenCfg{Srv: SrvCfg{Fwd: true, VRFs: []string{"VRF1"}, Default: "DEFAULT"}, Pools: DefaultPools()}
	out := []*CaseSpec{}
	for _, fib := range []bool{false, true} {
		for variant := 0; variant < 3; variant++ {
			fib, variant := fib, variant
			b := &cutBuilder{next: 1}
			c := b.connect()
			b.params(c, fib)
			b.announce(c)
			b.ops(c, b.heldOp(5, "10.0.0.0/8", 77))
			bad := &spb.AFTOperation{Id: 5, NetworkInstance: "DEFAULT", Op: spb.AFTOperation_DELETE, ElectionId: b.id()}
			switch variant {
			case 0:
				bad.Entry = &spb.AFTOperation_NextHop{NextHop: &aftpb.Afts_NextHopKey{Index: 0, NextHop: &aftpb.Afts_NextHop{}}}
			case 1:
				bad.Entry = &spb.AFTOperation_Ipv4{Ipv4: &aftpb.Afts_Ipv4EntryKey{Prefix: "not-a-prefix", Ipv4Entry: &aftpb.Afts_Ipv4Entry{}}}
			default:
				bad.Entry = &spb.AFTOperation_Mpls{Mpls: &aftpb.Afts_LabelEntryKey{Label: &aftpb.Afts_LabelEntryKey_LabelUint64{LabelUint64: 1048576}, LabelEntry: &aftpb.Afts_LabelEntry{}}}
			}
			// (variant 0, a zero index, is malformed by what it says; the other two are not even a
			// prefix / a label: the generator's class "bad")
			cls := "wf"
			if variant != 0 {
				cls = "bad"
			}
			b.evs = append(b.evs, SEv{Kind: "msg", C: c, MsgKind: "ops", Req: &spb.ModifyRequest{Operation: []*spb.AFTOperation{bad}}, Cls: []string{cls}})
			// the group arrives: the held operation is installed and acknowledged
			b.ops(c, b.chain("DEFAULT", "11.0.0.0/8"))
			out = append(out, srvCase(fmt.Sprintf("srv.malformed/corpus/malformed-delete-with-held-id/%d/%s", variant, B(fib)), cfg, b.evs))
		}
	}
	return out
}

// srvFlushCorpus: a server without the RIB's check function holding entries whose group lives in
// an instance that does not exist (nothing validates that there): a flush of their instance, and
// of all instances, still removes them and answers OK.
func srvFlushCorpus() []*CaseSpec {
	cfg := &SrvGenCfg{Srv: SrvCfg{Fwd: true, NoCheck: true, VRFs: []string{"VRF1"}, Default: "DEFAULT"}, Pools: DefaultPools()}
	out := []*CaseSpec{}
	for variant := 0; variant < 2; variant++ {
		b := &cutBuilder{next: 1}
		c := b.connect()
		b.params(c, false)
		b.announce(c)
		mk := func(e func(op *spb.AFTOperation)) *spb.AFTOperation {
			b.opID++
			op := &spb.AFTOperation{Id: b.opID, NetworkInstance: "VRF1", Op: spb.AFTOperation_ADD, ElectionId: b.id()}
			e(op)
			return op
		}
		b.ops(c, &spb.ModifyRequest{Operation: []*spb.AFTOperation{
			mk(func(op *spb.AFTOperation) {
				op.Entry = &spb.AFTOperation_Ipv4{Ipv4: &aftpb.Afts_Ipv4EntryKey{Prefix: "10.0.0.0/8", Ipv4Entry: &aftpb.Afts_Ipv4Entry{NextHopGroup: uv(1), NextHopGroupNetworkInstance: sv("NO-SUCH-VRF")}}}
			}),
			mk(func(op *spb.AFTOperation) {
				op.Entry = &spb.AFTOperation_Mpls{Mpls: &aftpb.Afts_LabelEntryKey{Label: &aftpb.Afts_LabelEntryKey_LabelUint64{LabelUint64: 1048575}, LabelEntry: &aftpb.Afts_LabelEntry{NextHopGroup: uv(1), NextHopGroupNetworkInstance: sv("NO-SUCH-VRF")}}}
			}),
		}})
		if variant == 0 {
			b.evs = append(b.evs, SEv{Kind: "flush", Flush: &spb.FlushRequest{NetworkInstance: &spb.FlushRequest_Name{Name: "VRF1"}, Election: &spb.FlushRequest_Id{Id: b.id()}}})
		} else {
			b.evs = append(b.evs, SEv{Kind: "flush", Flush: &spb.FlushRequest{NetworkInstance: &spb.FlushRequest_All{All: &spb.Empty{}}, Election: &spb.FlushRequest_Override{Override: &spb.Empty{}}}})
		}
		b.evs = append(b.evs, SEv{Kind: "get", Get: getAll(), GetFail: -1})
		out = append(out, srvCase(fmt.Sprintf("srv.flushget/corpus/nocheck-unknown-group-instance/%d", variant), cfg, b.evs))
	}
	// the primary announces a lower id than it had: the highest id the server has learnt stays,
	// a Flush whose id lies in the gap is refused and changes nothing, one with the highest id passes
	{
		cfg2 := &SrvGenCfg{Srv: SrvCfg{Fwd: true, VRFs: []string{"VRF1"}, Default: "DEFAULT"}, Pools: DefaultPools()}
		b := &cutBuilder{next: 1}
		c := b.connect()
		b.params(c, false)
		b.elec = 9
		b.announce(c) // {7, 10}
		b.ops(c, b.chain("DEFAULT", "10.0.0.0/8"))
		b.evs = append(b.evs, SEv{Kind: "msg", C: c, MsgKind: "elec", Req: &spb.ModifyRequest{ElectionId: &spb.Uint128{High: 7, Low: 5}}})
		b.evs = append(b.evs, SEv{Kind: "flush", Flush: &spb.FlushRequest{NetworkInstance: &spb.FlushRequest_All{All: &spb.Empty{}}, Election: &spb.FlushRequest_Id{Id: &spb.Uint128{High: 7, Low: 7}}}})
		b.evs = append(b.evs, SEv{Kind: "get", Get: getAll(), GetFail: -1})
		b.evs = append(b.evs, SEv{Kind: "flush", Flush: &spb.FlushRequest{NetworkInstance: &spb.FlushRequest_All{All: &spb.Empty{}}, Election: &spb.FlushRequest_Id{Id: &spb.Uint128{High: 7, Low: 10}}}})
		b.evs = append(b.evs, SEv{Kind: "get", Get: getAll(), GetFail: -1})
		out = append(out, srvCase("srv.flushget/corpus/primary-lowers-its-id-flush-in-the-gap", cfg2, b.evs))
	}
	return out
}

func init() {
	regSrvMode("srv.election", "election", 150, 1500, []string{"msg.elec.open", "msg.ops.open"})
	regSrvMode("srv.answers", "answers", 150, 1500, []string{"msg.ops.open", "add.cascade"})
	modes["srv.answers"].Corpus = srvAnswersCorpus
	defer func() { modes["srv.malformed"].Corpus = srvMalformedCorpus }()
	defer func() { modes["srv.flushget"].Corpus = srvFlushCorpus }()
	regSrvMode("srv.protocol", "protocol", 200, 2000, []string{"msg.multi.3", "msg.empty.12", "msg.params.open"})
	regSrvMode("srv.malformed", "malformed", 150, 1500, []string{"msg.ops.open"})
	regSrvMode("srv.flushget", "flushget", 150, 1500, []string{"flush.ok", "flush.rejected", "get.ok", "get.err", "rebuild.ok"})
	srvDiffs := []string{"msg.", "elec", "master", "sess", "ents", "pend", "add.", "del."}
	props["C04"] = &PropSpec{Mode: "srv.election", Diffs: srvDiffs, Monitors: []string{"c04"}}
	props["C05"] = &PropSpec{Mode: "srv.election", Extra: []string{"conc"}, Diffs: []string{"msg.resps", "elec", "master", "msg.not-accepted", "conc"}, Monitors: []string{"c05"}}
	props["C06"] = &PropSpec{Mode: "srv.answers", Extra: []string{"eofdrain"}, Diffs: []string{"msg.", "pend"}, Monitors: []string{"c06"}}
	props["C09"] = &PropSpec{Mode: "srv.protocol", Diffs: []string{"msg.", "sess", "elec", "master"}, Monitors: []string{"c09"}}
	props["C12"] = &PropSpec{Mode: "srv.malformed", Diffs: []string{"msg.", "ents", "pend", "refs", "crash", "add.", "del."}, Monitors: []string{"c12"}}
	props["C08"] = &PropSpec{Mode: "srv.flushget", Diffs: []string{"flush", "ents", "refs", "hooks"}, Monitors: []string{"c08", "c03"}}
	props["C07"] = &PropSpec{Mode: "srv.flushget", Extra: []string{"getsnap"}, Diffs: []string{"get", "ents"}, Monitors: []string{"c07"}}
}
