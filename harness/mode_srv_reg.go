package main

import (
	"fmt"
	"math/rand/v2"
)

func srvGenCfg(r *rand.Rand, tier, flavour string) *SrvGenCfg {
	p := DefaultPools()
	p.NIs = []string{"DEFAULT", "VRF1"}
	p.V4, p.V6, p.Labels = p.V4[:3], p.V6[:2], p.Labels[:2]
	p.NHGs, p.NHs = p.NHGs[:3], p.NHs[:3]
	cfg := &SrvGenCfg{
		Srv:   SrvCfg{Fwd: r.IntN(4) != 0, Hook: r.IntN(2) == 0, VRFs: []string{"VRF1"}, Default: "DEFAULT"},
		Pools: p, Steps: 45, MaxSess: 3, WViol: 40, WStamp: 120, WMalform: 40, WFlush: 25, WGet: 40, WClose: 25, WElec: 60, BatchMax: 3, FIB: 2,
	}
	if tier == "thorough" {
		cfg.Steps = 70
	}
	switch flavour {
	case "election":
		cfg.MaxSess, cfg.WElec, cfg.WStamp, cfg.WClose = 4, 250, 250, 40
	case "answers":
		cfg.BatchMax, cfg.WElec, cfg.WStamp, cfg.WMalform = 6, 120, 60, 60
		cfg.Srv.Fwd = true
	case "protocol":
		cfg.WViol, cfg.MaxSess, cfg.WClose = 250, 3, 60
	case "malformed":
		cfg.WMalform, cfg.WViol = 400, 60
	case "flushget":
		cfg.WFlush, cfg.WGet, cfg.WViol = 80, 120, 10
		p.Rich = true
	}
	return cfg
}

func srvCase(name string, cfg *SrvGenCfg, evs []SEv) *CaseSpec {
	return &CaseSpec{Name: name, N: len(evs), Run: func(keep []int) (*Trace, error) {
		sub := make([]SEv, 0, len(keep))
		for _, k := range keep {
			if k < len(evs) {
				sub = append(sub, evs[k])
			}
		}
		return RunSrvHistory(name, cfg, sub)
	}, Inputs: func() []string {
		o := []string{fmt.Sprintf("srv.new %s fwd=%s hook=%s %s", S(cfg.Srv.Default), B(cfg.Srv.Fwd), B(cfg.Srv.Hook), LS(cfg.Srv.VRFs))}
		for _, e := range evs {
			switch e.Kind {
			case "msg":
				o = append(o, fmt.Sprintf("srv.msg %d %s # %s", e.C, e.MsgKind, prototextLine(e.Req)))
			case "flush":
				o = append(o, "srv.flush # "+prototextLine(e.Flush))
			case "get":
				o = append(o, "srv.get # "+prototextLine(e.Get))
			default:
				o = append(o, fmt.Sprintf("srv.%s %d %s", e.Kind, e.C, e.CloseMode))
			}
		}
		return o
	}}
}

func regSrvMode(name, flavour string, quick, thorough int, required []string) {
	modes[name] = &Mode{
		Name: name,
		Gen: func(seed uint64, idx int, tier string) *CaseSpec {
			r := rngFor(seed, idx)
			cfg := srvGenCfg(r, tier, flavour)
			evs := GenSrvHistory(r, cfg)
			return srvCase(fmt.Sprintf("%s/%d/%d", name, seed, idx), cfg, evs)
		},
		Count: func(tier string) int {
			if tier == "thorough" {
				return thorough
			}
			return quick
		},
		Required: required,
	}
}

func init() {
	regSrvMode("srv.election", "election", 150, 1500, []string{"msg.elec.open", "msg.ops.open"})
	regSrvMode("srv.answers", "answers", 150, 1500, []string{"msg.ops.open", "add.cascade"})
	regSrvMode("srv.protocol", "protocol", 200, 2000, []string{"msg.multi.3", "msg.empty.12", "msg.params.open"})
	regSrvMode("srv.malformed", "malformed", 150, 1500, []string{"msg.ops.open"})
	regSrvMode("srv.flushget", "flushget", 150, 1500, []string{"flush.ok", "flush.rejected", "get.ok", "get.err"})
	srvDiffs := []string{"msg.", "elec", "master", "sess", "ents", "pend", "add.", "del."}
	props["C04"] = &PropSpec{Mode: "srv.election", Diffs: srvDiffs, Monitors: []string{"c04"}}
	props["C05"] = &PropSpec{Mode: "srv.election", Extra: []string{"conc"}, Diffs: []string{"msg.resps", "elec", "master", "msg.not-accepted", "conc"}, Monitors: []string{"c05"}}
	props["C06"] = &PropSpec{Mode: "srv.answers", Diffs: []string{"msg.", "pend"}, Monitors: []string{"c06"}}
	props["C09"] = &PropSpec{Mode: "srv.protocol", Diffs: []string{"msg.", "sess", "elec", "master"}, Monitors: []string{"c09"}}
	props["C12"] = &PropSpec{Mode: "srv.malformed", Diffs: []string{"msg.", "ents", "pend", "refs", "crash", "add.", "del."}, Monitors: []string{"c12"}}
	props["C08"] = &PropSpec{Mode: "srv.flushget", Diffs: []string{"flush", "ents", "refs", "hooks"}, Monitors: []string{"c08"}}
	props["C07"] = &PropSpec{Mode: "srv.flushget", Diffs: []string{"get", "ents"}, Monitors: []string{"c07"}}
}
