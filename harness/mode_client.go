package main

// Client accounting (property C13): the real client.Client against a scripted, adversarial
// stub server, in lock-step: after every queued request and every delivered response the
// pending set, the results and the recorded errors are observed and compared with the model.

import (
	"context"
	"errors"
	"fmt"
	"math/rand/v2"
	"sort"
	"strings"
	"time"

	"github.com/openconfig/gribigo/client"

	aftpb "github.com/openconfig/gribi/v1/proto/gribi_aft"
	spb "github.com/openconfig/gribi/v1/proto/service"
)

type clOp struct {
	id   uint64
	ty   int
	kind int
	key  string
	op   *spb.AFTOperation
}

func mkClOp(r *rand.Rand, id uint64) clOp {
	o := clOp{id: id, ty: 1 + r.IntN(3), kind: 1 + r.IntN(5)}
	op := &spb.AFTOperation{Id: id, NetworkInstance: "DEFAULT", Op: spb.AFTOperation_Operation(o.ty)}
	n := uint64(1 + r.IntN(4))
	switch o.kind {
	case 1:
		o.key = fmt.Sprintf("%d.0.0.0/8", n)
		op.Entry = &spb.AFTOperation_Ipv4{Ipv4: &aftpb.Afts_Ipv4EntryKey{Prefix: o.key, Ipv4Entry: &aftpb.Afts_Ipv4Entry{}}}
	case 2:
		o.key = fmt.Sprintf("2001:db8:%d::/48", n)
		op.Entry = &spb.AFTOperation_Ipv6{Ipv6: &aftpb.Afts_Ipv6EntryKey{Prefix: o.key, Ipv6Entry: &aftpb.Afts_Ipv6Entry{}}}
	case 3:
		o.key = fmt.Sprint(100 * n)
		op.Entry = &spb.AFTOperation_Mpls{Mpls: &aftpb.Afts_LabelEntryKey{Label: &aftpb.Afts_LabelEntryKey_LabelUint64{LabelUint64: 100 * n}, LabelEntry: &aftpb.Afts_LabelEntry{}}}
	case 4:
		o.key = fmt.Sprint(n)
		op.Entry = &spb.AFTOperation_NextHopGroup{NextHopGroup: &aftpb.Afts_NextHopGroupKey{Id: n, NextHopGroup: &aftpb.Afts_NextHopGroup{}}}
	default:
		o.key = fmt.Sprint(n)
		op.Entry = &spb.AFTOperation_NextHop{NextHop: &aftpb.Afts_NextHopKey{Index: n, NextHop: &aftpb.Afts_NextHop{}}}
	}
	o.op = op
	return o
}

func statusNum(s spb.AFTResult_Status) int { return int(s) }

// obsClient renders the client's observable accounting state.
func obsClient(c *client.Client) (string, error) {
	pend, err := c.Pending()
	if err != nil {
		return "", err
	}
	ids := []uint64{}
	pe, pp := false, false
	for _, p := range pend {
		switch v := p.(type) {
		case *client.PendingOp:
			ids = append(ids, v.Op.GetId())
		case *client.ElectionReqDetails:
			pe = true
		case *client.SessionParamReqDetails:
			pp = true
		}
	}
	sort.Slice(ids, func(i, j int) bool { return ids[i] < ids[j] })
	res, err := c.Results()
	if err != nil {
		return "", err
	}
	st, err := c.Status()
	if err != nil {
		return "", err
	}
	parts := []string{}
	for _, r := range res {
		if r == nil {
			parts = append(parts, "nil")
			continue
		}
		det := "-"
		if d := r.Details; d != nil {
			kind, key := 0, ""
			switch {
			case d.IPv4Prefix != "":
				kind, key = 1, d.IPv4Prefix
			case d.IPv6Prefix != "":
				kind, key = 2, d.IPv6Prefix
			case d.MPLSLabel != 0:
				kind, key = 3, fmt.Sprint(d.MPLSLabel)
			case d.NextHopGroupID != 0:
				kind, key = 4, fmt.Sprint(d.NextHopGroupID)
			case d.NextHopIndex != 0:
				kind, key = 5, fmt.Sprint(d.NextHopIndex)
			}
			det = fmt.Sprintf("%d,%d,%s", int(d.Type), kind, S(key))
		}
		flags := ""
		if r.CurrentServerElectionID != nil {
			flags += "e"
		}
		if r.SessionParameters != nil {
			flags += "p"
		}
		if r.ClientError != "" {
			flags += "c"
		}
		if flags == "" {
			flags = "-"
		}
		parts = append(parts, fmt.Sprintf("%d %d %s %s", r.OperationID, statusNum(r.ProgrammingResult), det, flags))
	}
	line := fmt.Sprintf("obs.cl %s %s %s %d %d %d", L(ids), B(pe), B(pp), len(st.SendErrs), len(st.ReadErrs), len(res))
	for _, p := range parts {
		line += " | " + p
	}
	return line, nil
}

func clientCase(seed uint64, idx int) *CaseSpec {
	name := fmt.Sprintf("client/%d/%d", seed, idx)
	run := func(keep []int) (*Trace, error) {
		client.BusyLoopDelay = 200 * time.Microsecond
		r := rngFor(seed, idx)
		t := &Trace{}
		t.Add("begin %s", name)
		fib := r.IntN(2) == 0
		opts := []client.Opt{client.PersistEntries(), client.ElectedPrimaryClient(&spb.Uint128{Low: 1})}
		if fib {
			opts = append(opts, client.FIBACK())
		}
		c, err := client.New(opts...)
		if err != nil {
			return t, err
		}
		stub := &stubClient{}
		c.UseStub(stub)
		ctx, cancel := context.WithCancel(context.Background())
		defer cancel()
		// one case in five queues its first requests before Connect (Q is allowed then): what Q
		// records there — a send error for a reused pending id included — is the client's, not the
		// stream's, and must still be there afterwards
		pre := r.IntN(5) == 0
		// one case in six numbers its operations from 0: an id of 0 is an id like any other
		idBase := uint64(1)
		if r.IntN(6) == 0 {
			idBase = 0
		}
		var st *stubStream
		connect := func() error {
			if err := c.Connect(ctx); err != nil {
				return err
			}
			st = stub.last()
			return nil
		}
		if !pre {
			if err := connect(); err != nil {
				return t, err
			}
		}
		defer func() {
			done := make(chan struct{})
			go func() { c.Close(); close(done) }()
			select {
			case <-done:
			case <-time.After(wd(2 * time.Second)):
			}
		}()
		t.Add("cl.new %s", B(fib))
		obs := func() bool {
			l, err := obsClient(c)
			if err != nil {
				t.Add("crash - %s", S(err.Error()))
				return false
			}
			t.Add("%s", l)
			return true
		}
		nextID := uint64(0)
		type outst struct {
			id      uint64
			ribSeen bool
		}
		outstanding := []*outst{}
		done := []uint64{}
		started := false
		pendElec, pendParams := false, false
		dead := false
		_ = pendElec
		genReq := func() (*spb.ModifyRequest, string) {
			n := 1 + r.IntN(3)
			req := &spb.ModifyRequest{}
			parts := []string{}
			for i := 0; i < n; i++ {
				id := nextID + idBase
				if len(outstanding) > 0 && (r.IntN(40) == 0 || (pre && st == nil && r.IntN(3) == 0)) {
					id = outstanding[r.IntN(len(outstanding))].id // duplicate pending id
				} else {
					nextID++
				}
				o := mkClOp(r, id)
				req.Operation = append(req.Operation, o.op)
				parts = append(parts, fmt.Sprintf("%d %d %d %s", o.id, o.ty, o.kind, S(o.key)))
			}
			el, pa := false, false
			if r.IntN(12) == 0 {
				req.ElectionId = &spb.Uint128{Low: uint64(2 + r.IntN(3))}
				el = true
			}
			return req, fmt.Sprintf("%d ; %s ; %s %s", n, strings.Join(parts, " ; "), B(el), B(pa))
		}
		// deliver pushes one response and waits until the client has dealt with it: the receiver
		// is back in Recv, or has recorded a read error and exited (then it returns false)
		deliver := func(resp *spb.ModifyResponse) bool {
			before, _ := c.Status()
			returnsBefore := st.recvReturns.Load()
			st.recvCh <- recvItem{resp: resp}
			deadline := time.Now().Add(3 * time.Second)
			for {
				now, _ := c.Status()
				if len(now.ReadErrs) > len(before.ReadErrs) {
					return false
				}
				if ret := st.recvReturns.Load(); ret > returnsBefore && st.recvCalls.Load() > ret {
					return true
				}
				if time.Now().After(deadline) {
					t.Add("hang")
					return false
				}
				time.Sleep(30 * time.Microsecond)
			}
		}
		steps := 20 + r.IntN(15)
		preSteps := 0
		if pre {
			preSteps = 2 + r.IntN(3)
		}
		for s := 0; s < steps && !dead; s++ {
			x := r.IntN(100)
			if pre && st == nil {
				if s < preSteps {
					x = 0 // a request is queued
				} else {
					if err := connect(); err != nil {
						return t, err
					}
					t.Add("cl.connect")
					if !obs() {
						break
					}
				}
			}
			switch {
			case st != nil && !started && (s > 2 || x < 40):
				c.StartSending()
				started = true
				pendElec, pendParams = true, true
				t.Add("cl.start")
			case x < 40:
				req, desc := genReq()
				// replicate the accounting the generator needs: which ids are outstanding now
				qdone := make(chan struct{})
				go func() { c.Q(req); close(qdone) }()
				select {
				case <-qdone:
				case <-time.After(wd(3 * time.Second)):
					t.Add("hang")
					dead = true
					continue
				}
				seen := map[uint64]bool{}
				for _, o := range outstanding {
					seen[o.id] = true
				}
				dup := false
				for _, op := range req.Operation {
					if seen[op.Id] || dup {
						dup = true
						continue
					}
					seen[op.Id] = true
					outstanding = append(outstanding, &outst{id: op.Id})
				}
				if req.ElectionId != nil && !dup {
					pendElec = true
				}
				t.Add("cl.q %s", desc)
			case started:
				resp := &spb.ModifyResponse{}
				el, pa, has := false, false, false
				parts := []string{}
				switch y := r.IntN(20); {
				case y == 0 && pendParams:
					resp.SessionParamsResult = &spb.SessionParametersResult{}
					pa, pendParams = true, false
				case y == 1:
					resp.ElectionId = &spb.Uint128{Low: 1}
					el, pendElec = true, false
				case y == 2 && r.IntN(3) == 0:
					// unsolicited parameters / election result, or a violating combination
					if r.IntN(2) == 0 {
						resp.SessionParamsResult = &spb.SessionParametersResult{}
						pa = true
						if r.IntN(3) == 0 {
							resp.ElectionId = &spb.Uint128{Low: 1}
							el = true
						}
					} else {
						resp.ElectionId = &spb.Uint128{Low: 1}
						el = true
					}
				default:
					has = true
					resp.Result = []*spb.AFTResult{}
					n := 1 + r.IntN(3)
					for i := 0; i < n; i++ {
						var id uint64
						var stt spb.AFTResult_Status
						z := r.IntN(60)
						switch {
						case z == 0:
							id, stt = nextID+50+uint64(r.IntN(3)), []spb.AFTResult_Status{spb.AFTResult_FAILED, spb.AFTResult_RIB_PROGRAMMED, spb.AFTResult_FIB_PROGRAMMED}[r.IntN(3)] // unknown id
						case z == 1 && len(done) > 0:
							id, stt = done[r.IntN(len(done))], []spb.AFTResult_Status{spb.AFTResult_FAILED, spb.AFTResult_RIB_PROGRAMMED, spb.AFTResult_FIB_PROGRAMMED}[r.IntN(3)] // duplicate terminal
						case len(outstanding) == 0:
							continue
						default:
							k := r.IntN(len(outstanding))
							o := outstanding[k]
							id = o.id
							switch w := r.IntN(10); {
							case w == 0:
								stt = spb.AFTResult_FAILED
							case w == 1 && fib:
								stt = spb.AFTResult_FIB_FAILED
							case w == 2:
								stt = spb.AFTResult_OK // a status the client does not act on
							case fib && !o.ribSeen:
								stt = spb.AFTResult_RIB_PROGRAMMED
								o.ribSeen = true
							case fib:
								stt = spb.AFTResult_FIB_PROGRAMMED
							default:
								stt = spb.AFTResult_RIB_PROGRAMMED
							}
							term := stt == spb.AFTResult_FAILED || stt == spb.AFTResult_FIB_FAILED || stt == spb.AFTResult_FIB_PROGRAMMED || (stt == spb.AFTResult_RIB_PROGRAMMED && !fib)
							if term {
								outstanding = append(outstanding[:k], outstanding[k+1:]...)
								done = append(done, id)
							}
						}
						resp.Result = append(resp.Result, &spb.AFTResult{Id: id, Status: stt})
						parts = append(parts, fmt.Sprintf("%d:%d", id, int(stt)))
					}
				}
				if !deliver(resp) {
					dead = true
				}
				t.Add("cl.recv %s %s %s [%s]", B(has), B(el), B(pa), strings.Join(parts, ","))
			default:
				continue
			}
			if !obs() {
				t.Add("end")
				return t, nil
			}
		}
		// in half of the histories the server finally answers everything that is outstanding
		if !dead && started && r.IntN(2) == 0 {
			send := func(resp *spb.ModifyResponse, desc string) {
				if dead {
					return
				}
				if !deliver(resp) {
					dead = true
				}
				t.Add("%s", desc)
				obs()
			}
			if pendParams {
				send(&spb.ModifyResponse{SessionParamsResult: &spb.SessionParametersResult{}}, "cl.recv 0 0 1 []")
			}
			send(&spb.ModifyResponse{ElectionId: &spb.Uint128{Low: 1}}, "cl.recv 0 1 0 []")
			for _, o := range outstanding {
				if fib {
					if !o.ribSeen {
						send(&spb.ModifyResponse{Result: []*spb.AFTResult{{Id: o.id, Status: spb.AFTResult_RIB_PROGRAMMED}}}, fmt.Sprintf("cl.recv 1 0 0 [%d:3]", o.id))
					}
					send(&spb.ModifyResponse{Result: []*spb.AFTResult{{Id: o.id, Status: spb.AFTResult_FIB_PROGRAMMED}}}, fmt.Sprintf("cl.recv 1 0 0 [%d:4]", o.id))
				} else {
					send(&spb.ModifyResponse{Result: []*spb.AFTResult{{Id: o.id, Status: spb.AFTResult_RIB_PROGRAMMED}}}, fmt.Sprintf("cl.recv 1 0 0 [%d:3]", o.id))
				}
			}
		}
		// convergence
		actx, acancel := context.WithTimeout(context.Background(), 40*time.Millisecond)
		errc := make(chan error, 1)
		go func() { errc <- c.AwaitConverged(actx) }()
		var aerr error
		select {
		case aerr = <-errc:
		case <-time.After(wd(3 * time.Second)):
			acancel()
			t.Add("hang")
			t.Add("end")
			return t, nil
		}
		acancel()
		var ce *client.ClientErr
		switch {
		case aerr == nil:
			t.Add("cl.await => converged")
		case errors.As(aerr, &ce):
			t.Add("cl.await => errors %d %d", len(ce.Send), len(ce.Recv))
		default:
			t.Add("cl.await => timeout")
		}
		// the application acknowledges some results while it still holds a snapshot of all of
		// them: the snapshot is the application's, the queue the client's (a queue with a nil
		// entry — left by a failed dequeue — is not acknowledged: AckResult does not expect one)
		if res0, err := c.Results(); err == nil && len(res0) > 0 {
			hasNil := false
			for _, x := range res0 {
				if x == nil {
					hasNil = true
				}
			}
			render := func(l []*client.OpResult) string {
				o := []string{}
				for _, x := range l {
					if x == nil {
						o = append(o, "nil")
						continue
					}
					d := "-"
					if x.Details != nil {
						d = fmt.Sprintf("%+v", *x.Details)
					}
					o = append(o, fmt.Sprintf("%d/%d/%s/%v/%v/%s", x.OperationID, statusNum(x.ProgrammingResult), d, x.CurrentServerElectionID != nil, x.SessionParameters != nil, x.ClientError))
				}
				return strings.Join(o, " ; ")
			}
			if !hasNil {
				before := render(res0)
				pick := []*client.OpResult{}
				ids := []uint64{}
				seen := map[uint64]bool{}
				for _, x := range res0 {
					if x.OperationID != 0 && !seen[x.OperationID] && r.IntN(2) == 0 {
						seen[x.OperationID] = true
						pick = append(pick, x)
						ids = append(ids, x.OperationID)
					}
				}
				if len(pick) > 0 {
					aerr := c.AckResult(pick...)
					t.Add("cl.ack %s => %s", L(ids), B(aerr != nil))
					if !obs() {
						t.Add("end")
						return t, nil
					}
					t.Add("cl.snap %s", B(render(res0) == before))
				}
			}
		}
		t.Add("end")
		return t, nil
	}
	return &CaseSpec{Name: name, N: 1, Run: run, Inputs: func() []string { return []string{name} }}
}

// clientRaceCase: AwaitConverged runs concurrently with the receiver while one response both
// completes every pending operation and violates the protocol (a result for an id that was
// never queued). The waiter must get the recorded error, never "converged": the handler
// processes a response and records its error as one step with respect to the waiter.
func clientRaceCase(seed uint64, idx int) *CaseSpec {
	name := fmt.Sprintf("client-race/%d/%d", seed, idx)
	run := func(keep []int) (*Trace, error) {
		client.BusyLoopDelay = 200 * time.Microsecond
		r := rngFor(seed, idx)
		t := &Trace{}
		t.Add("begin %s", name)
		c, err := client.New(client.PersistEntries(), client.ElectedPrimaryClient(&spb.Uint128{Low: 1}))
		if err != nil {
			return t, err
		}
		stub := &stubClient{}
		c.UseStub(stub)
		ctx, cancel := context.WithCancel(context.Background())
		defer cancel()
		if err := c.Connect(ctx); err != nil {
			return t, err
		}
		defer func() { within(2*time.Second, func() { c.Close() }) }()
		st := stub.last()
		t.Add("cl.new 0")
		c.StartSending()
		t.Add("cl.start")
		n := 1500 + r.IntN(1500)
		req := &spb.ModifyRequest{}
		parts := []string{}
		res := []*spb.AFTResult{}
		rparts := []string{}
		for i := 1; i <= n; i++ {
			o := mkClOp(r, uint64(i))
			req.Operation = append(req.Operation, o.op)
			parts = append(parts, fmt.Sprintf("%d %d %d %s", o.id, o.ty, o.kind, S(o.key)))
			res = append(res, &spb.AFTResult{Id: uint64(i), Status: spb.AFTResult_RIB_PROGRAMMED})
			rparts = append(rparts, fmt.Sprintf("%d:3", i))
		}
		if !within(3*time.Second, func() { c.Q(req) }) {
			t.Add("hang")
			t.Add("end")
			return t, nil
		}
		t.Add("cl.q %d ; %s ; 0 0", n, strings.Join(parts, " ; "))
		st.waitSent(3, 3*time.Second)
		wait := func(before int64) {
			for dl := time.Now().Add(3 * time.Second); time.Now().Before(dl); {
				if ret := st.recvReturns.Load(); ret > before && st.recvCalls.Load() > ret {
					return
				}
				time.Sleep(30 * time.Microsecond)
			}
		}
		b := st.recvReturns.Load()
		st.recvCh <- recvItem{resp: &spb.ModifyResponse{SessionParamsResult: &spb.SessionParametersResult{}}}
		wait(b)
		t.Add("cl.recv 0 0 1 []")
		b = st.recvReturns.Load()
		st.recvCh <- recvItem{resp: &spb.ModifyResponse{ElectionId: &spb.Uint128{Low: 1}}}
		wait(b)
		t.Add("cl.recv 0 1 0 []")
		// the waiter spins on AwaitConverged while the last response arrives
		res = append(res, &spb.AFTResult{Id: uint64(n + 777), Status: spb.AFTResult_RIB_PROGRAMMED})
		rparts = append(rparts, fmt.Sprintf("%d:3", n+777))
		errc := make(chan error, 1)
		go func() {
			actx, acancel := context.WithTimeout(context.Background(), wd(3*time.Second))
			defer acancel()
			errc <- c.AwaitConverged(actx)
		}()
		time.Sleep(time.Duration(r.IntN(300)) * time.Microsecond)
		st.recvCh <- recvItem{resp: &spb.ModifyResponse{Result: res}}
		var aerr error
		select {
		case aerr = <-errc:
		case <-time.After(wd(5 * time.Second)):
			t.Add("hang")
			t.Add("end")
			return t, nil
		}
		t.Add("cl.recv 1 0 0 [%s]", strings.Join(rparts, ","))
		// let the receiver finish recording before the client's state is read
		for dl := time.Now().Add(2 * time.Second); time.Now().Before(dl); {
			s, _ := c.Status()
			if s != nil && len(s.ReadErrs) > 0 {
				break
			}
			time.Sleep(50 * time.Microsecond)
		}
		var ce *client.ClientErr
		out := "timeout"
		switch {
		case aerr == nil:
			out = "converged"
		case errors.As(aerr, &ce):
			out = fmt.Sprintf("errors %d %d", len(ce.Send), len(ce.Recv))
		}
		t.Add("cl.await => %s", out)
		s, _ := c.Status()
		p, _ := c.Pending()
		ne := 0
		if s != nil {
			ne = len(s.SendErrs) + len(s.ReadErrs)
		}
		t.Add("cl.after %s %d %d", strings.Fields(out)[0], len(p), ne)
		t.Add("end")
		return t, nil
	}
	return &CaseSpec{Name: name, N: 1, Run: run, Atomic: true, Inputs: func() []string { return []string{name} }}
}

func init() {
	modes["client"] = &Mode{
		Name: "client",
		Gen: func(seed uint64, idx int, tier string) *CaseSpec {
			if idx%5 == 4 {
				return clientRaceCase(seed, idx)
			}
			return clientCase(seed, idx)
		},
		Count: func(tier string) int {
			if tier == "thorough" {
				return 3000
			}
			return 300
		},
		Required: []string{"cl.q", "cl.recv", "cl.await.converged", "cl.await.errors", "cl.await.timeout", "cl.after"},
	}
	props["C13"] = &PropSpec{Mode: "client", Extra: []string{"clientfault"}, Diffs: []string{"cl."}, Monitors: []string{"c13"}}
}
