package main

// Watchdogs. Every call of the code under test runs under a wall-clock limit so that a hang
// ends the case instead of the run. Wall-clock limits are sensitive to the load of the machine: on
// an oversubscribed host a live server can take longer than the limit. A finding whose trace shows
// an expired watchdog is therefore executed again, alone, with every limit multiplied (wdFactor); it
// is reported only if it shows again. A true hang (a leaked lock, a goroutine that never answers)
// shows again whatever the limit.

import (
	"regexp"
	"runtime"
	"strings"
	"sync/atomic"
	"time"
)

// wdSlow counts the re-executions in progress; while there is one, every limit is multiplied
// (also for the cases other workers run meanwhile, which is harmless).
var wdSlow atomic.Int64

const wdFactor = 8

// wd scales a watchdog limit by the current factor.
func wd(d time.Duration) time.Duration {
	if wdSlow.Load() > 0 {
		return d * wdFactor
	}
	return d
}

// stepTO is the limit of one step of the server harness.
func stepTO() time.Duration { return wd(5 * time.Second) }

var hangRe = regexp.MustCompile(`(^|[^A-Za-z0-9_])hang($|[^A-Za-z0-9_])`)

// watchdogExpired: the trace records that some limit expired.
func watchdogExpired(t *Trace) bool {
	for _, l := range t.Lines {
		if hangRe.MatchString(l) {
			return true
		}
	}
	return false
}

// confirmedHangs counts findings that showed again under the long limits; after a few of them the
// re-execution is skipped (the violation is established, and each confirmation costs the long limit).
var confirmedHangs atomic.Int64

// wdFired counts the wall-clock limits of the server harness that have expired (whatever the
// case then wrote into its trace about it): a finding of a case during which one expired is
// executed again under the long limits before it is believed — a loaded machine makes a limit
// expire without anything being wrong.
var wdFired atomic.Int64

// ---- evidence of a deadlock ----
//
// A deadlock that needs an interleaving does not show again when the case is executed alone, so the
// re-execution above would discard it. When a watchdog expires the harness therefore looks at the
// goroutines of the code under test: if the same goroutines are parked on a mutex (inside gribigo
// code) in three dumps spread over three seconds, something holds a lock and is not coming back —
// a slow machine shows different goroutines waiting at different moments, because the holders make
// progress. Such a case is reported without asking for it to show again.

var lockWedges atomic.Int64

var goroutineHdr = regexp.MustCompile(`^goroutine (\d+) \[([^\]]*)\]`)

// mutexWaiters returns the ids of the goroutines that are parked acquiring a sync.Mutex /
// sync.RWMutex from gribigo code, with the frame that asked for the lock.
func mutexWaiters() map[string]string {
	buf := make([]byte, 16<<20)
	n := runtime.Stack(buf, true)
	out := map[string]string{}
	for _, g := range strings.Split(string(buf[:n]), "\n\n") {
		lines := strings.Split(g, "\n")
		m := goroutineHdr.FindStringSubmatch(lines[0])
		if m == nil {
			continue
		}
		st := m[2]
		if !(strings.HasPrefix(st, "sync.Mutex.Lock") || strings.HasPrefix(st, "sync.RWMutex.Lock") || strings.HasPrefix(st, "sync.RWMutex.RLock") || strings.HasPrefix(st, "semacquire")) {
			continue
		}
		site := ""
		for _, l := range lines[1:] {
			if strings.Contains(l, "github.com/openconfig/gribigo/") && !strings.HasPrefix(l, "\t") {
				site = strings.TrimSpace(l)
				if i := strings.Index(site, "("); i > 0 {
					site = site[:i]
				}
				break
			}
		}
		if site != "" {
			out[m[1]] = site
		}
	}
	return out
}

// noteIfWedged is called where a watchdog has just expired.
func noteIfWedged() {
	a := mutexWaiters()
	if len(a) == 0 {
		return
	}
	for i := 0; i < 2; i++ {
		time.Sleep(1500 * time.Millisecond)
		b := mutexWaiters()
		for id, site := range a {
			if b[id] != site {
				delete(a, id)
			}
		}
		if len(a) == 0 {
			return
		}
	}
	lockWedges.Add(1)
}
