package main

// Watchdogs. Every call of the code under test runs under a wall-clock limit so that a hang
// ends the case instead of the run. Wall-clock limits are sensitive to the load of the machine: on
// an oversubscribed host a live server can take longer than the limit. A finding whose trace shows
// an expired watchdog is therefore executed again, alone, with every limit multiplied (wdFactor); it
// is reported only if it shows again. A true hang (a leaked lock, a goroutine that never answers)
// shows again whatever the limit.

import (
	"regexp"
	"sync/atomic"
	"time"
)

// wdSlow counts the re-executions in progress; while there is one, every limit is multiplied
// (also for the cases other workers run meanwhile, which is harmless).
var wdSlow atomic.Int64

const wdFactor = 8

// wd scales a watchdog limit by the current factor.
func wd(d time.Duration) time.Duration {
	if wdSlow.Load() > 0 {
		return d * wdFactor
	}
	return d
}

// stepTO is the limit of one step of the server harness.
func stepTO() time.Duration { return wd(5 * time.Second) }

var hangRe = regexp.MustCompile(`(^|[^A-Za-z0-9_])hang($|[^A-Za-z0-9_])`)

// watchdogExpired: the trace records that some limit expired.
func watchdogExpired(t *Trace) bool {
	for _, l := range t.Lines {
		if hangRe.MatchString(l) {
			return true
		}
	}
	return false
}

// confirmedHangs counts findings that showed again under the long limits; after a few of them the
// re-execution is skipped (the violation is established, and each confirmation costs the long limit).
var confirmedHangs atomic.Int64
