package main

// "cut" mode (property C10): a victim session runs a fixed Modify script; the client is cut off at
// every point of it — after each message (server idle), and part-way through the answers of each
// batch — in each of the three ways a client goes away (clean half-close, cancellation, transport
// failure); Get streams are abandoned after each received response. After every fault a fresh
// session negotiates, wins the election, programs an entry, reads everything back with Get and
// flushes: the probe that the server is still fully serviceable. Sequences of several faults
// are generated from the seed. The Lean server model predicts every response and the state
// after every step (the cut leaves the contents and the election id as they were; a batch cut
// part-way leaves exactly the operations the code had handed over or had in hand).

import (
	"fmt"
	"math/rand/v2"

	aftpb "github.com/openconfig/gribi/v1/proto/gribi_aft"
	spb "github.com/openconfig/gribi/v1/proto/service"
)

type cutFault struct {
	kind string // idle | mid | get
	at   int    // idle: number of victim messages sent before the cut (0..4); mid: which batch (0,1)
	j    int    // mid: responses that get through; get: responses read before abandoning
	mode string // eof | cancel | fail
}

func (f cutFault) String() string { return fmt.Sprintf("%s@%d.%d/%s", f.kind, f.at, f.j, f.mode) }

// cutBuilder assembles the events of one scenario.
type cutBuilder struct {
	evs    []SEv
	next   int    // next session number
	elec   uint64 // highest election id announced so far (low word; high = 7)
	opID   uint64
	nhNext uint64
}

func (b *cutBuilder) id() *spb.Uint128 { return &spb.Uint128{High: 7, Low: b.elec} }

func (b *cutBuilder) connect() int {
	c := b.next
	b.next++
	b.evs = append(b.evs, SEv{Kind: "connect", C: c})
	return c
}

func (b *cutBuilder) params(c int, fib bool) {
	ack := spb.SessionParameters_RIB_ACK
	if fib {
		ack = spb.SessionParameters_RIB_AND_FIB_ACK
	}
	b.evs = append(b.evs, SEv{Kind: "msg", C: c, MsgKind: "params", Req: &spb.ModifyRequest{Params: &spb.SessionParameters{Redundancy: spb.SessionParameters_SINGLE_PRIMARY, Persistence: spb.SessionParameters_PRESERVE, AckType: ack}}})
}

func (b *cutBuilder) announce(c int) {
	b.elec++
	b.evs = append(b.evs, SEv{Kind: "msg", C: c, MsgKind: "elec", Req: &spb.ModifyRequest{ElectionId: b.id()}})
}

// chain returns a batch that installs a fresh next-hop, a group on it and a prefix on the group
// (no forward references, so nothing is ever held and no cascade is needed to explain it).
func (b *cutBuilder) chain(ni string, pfx string) *spb.ModifyRequest {
	b.nhNext++
	n := b.nhNext
	mk := func(e func(op *spb.AFTOperation)) *spb.AFTOperation {
		b.opID++
		op := &spb.AFTOperation{Id: b.opID, NetworkInstance: ni, Op: spb.AFTOperation_ADD, ElectionId: b.id()}
		e(op)
		return op
	}
	return &spb.ModifyRequest{Operation: []*spb.AFTOperation{
		mk(func(op *spb.AFTOperation) {
			op.Entry = &spb.AFTOperation_NextHop{NextHop: &aftpb.Afts_NextHopKey{Index: n, NextHop: &aftpb.Afts_NextHop{IpAddress: sv(fmt.Sprintf("10.0.0.%d", n%250))}}}
		}),
		mk(func(op *spb.AFTOperation) {
			op.Entry = &spb.AFTOperation_NextHopGroup{NextHopGroup: &aftpb.Afts_NextHopGroupKey{Id: n, NextHopGroup: &aftpb.Afts_NextHopGroup{NextHop: []*aftpb.Afts_NextHopGroup_NextHopKey{{Index: n, NextHop: &aftpb.Afts_NextHopGroup_NextHop{Weight: uv(1)}}}}}}
		}),
		mk(func(op *spb.AFTOperation) {
			op.Entry = &spb.AFTOperation_Ipv4{Ipv4: &aftpb.Afts_Ipv4EntryKey{Prefix: pfx, Ipv4Entry: &aftpb.Afts_Ipv4Entry{NextHopGroup: uv(n)}}}
		}),
		// a label entry on the same group: the Get stream then has a label table to be cut in
		mk(func(op *spb.AFTOperation) {
			op.Entry = &spb.AFTOperation_Mpls{Mpls: &aftpb.Afts_LabelEntryKey{Label: &aftpb.Afts_LabelEntryKey_LabelUint64{LabelUint64: 1000 + n}, LabelEntry: &aftpb.Afts_LabelEntry{NextHopGroup: uv(n)}}}
		}),
	}}
}

// heldOp is one operation that cannot resolve (a prefix on a group that is not installed), with
// the given operation id: it is held, and stays held when its session goes away.
func (b *cutBuilder) heldOp(id uint64, pfx string, grp uint64) *spb.ModifyRequest {
	return &spb.ModifyRequest{Operation: []*spb.AFTOperation{{Id: id, NetworkInstance: "DEFAULT", Op: spb.AFTOperation_ADD, ElectionId: b.id(),
		Entry: &spb.AFTOperation_Ipv4{Ipv4: &aftpb.Afts_Ipv4EntryKey{Prefix: pfx, Ipv4Entry: &aftpb.Afts_Ipv4Entry{NextHopGroup: uv(grp)}}}}}}
}

func (b *cutBuilder) ops(c int, req *spb.ModifyRequest) {
	b.evs = append(b.evs, SEv{Kind: "msg", C: c, MsgKind: "ops", Req: req})
}

func getAll() *spb.GetRequest {
	return &spb.GetRequest{NetworkInstance: &spb.GetRequest_All{All: &spb.Empty{}}, Aft: spb.AFTType_ALL}
}

// probe: a new session negotiates, wins the election, programs a chain, reads everything back,
// and (optionally) flushes. Every step is answered by a serviceable server.
func (b *cutBuilder) probe(fib, flush bool, seq int) {
	c := b.connect()
	b.params(c, fib)
	b.announce(c)
	b.ops(c, b.chain("DEFAULT", fmt.Sprintf("10.%d.0.0/16", 100+seq)))
	b.evs = append(b.evs, SEv{Kind: "get", Get: getAll(), GetFail: -1})
	if flush {
		b.evs = append(b.evs, SEv{Kind: "flush", Flush: &spb.FlushRequest{NetworkInstance: &spb.FlushRequest_All{All: &spb.Empty{}}, Election: &spb.FlushRequest_Id{Id: b.id()}}})
		b.evs = append(b.evs, SEv{Kind: "get", Get: getAll(), GetFail: -1})
	}
	// the probe session stays connected (a later victim must outbid it)
}

// victim runs the script up to the fault and applies the fault.
func (b *cutBuilder) victim(f cutFault, fib bool, seq int) {
	switch f.kind {
	case "get":
		// make sure there is something to stream, then abandon a Get after f.j responses
		c := b.connect()
		b.params(c, fib)
		b.announce(c)
		b.ops(c, b.chain("DEFAULT", fmt.Sprintf("20.%d.0.0/16", seq)))
		b.ops(c, b.chain("VRF1", fmt.Sprintf("21.%d.0.0/16", seq)))
		b.evs = append(b.evs, SEv{Kind: "get", Get: getAll(), GetFail: f.j})
		b.evs = append(b.evs, SEv{Kind: "close", C: c, CloseMode: f.mode})
		return
	}
	if f.kind == "heldid" {
		c := b.connect()
		b.params(c, fib)
		b.announce(c)
		b.ops(c, b.heldOp(900001, fmt.Sprintf("40.%d.0.0/16", seq), 9000+uint64(seq)))
		b.evs = append(b.evs, SEv{Kind: "close", C: c, CloseMode: f.mode})
		// the successor: same operation id, again a forward reference
		c2 := b.connect()
		b.params(c2, fib)
		b.announce(c2)
		b.ops(c2, b.heldOp(900001, fmt.Sprintf("41.%d.0.0/16", seq), 9500+uint64(seq)))
		return
	}
	c := b.connect()
	script := []func(){
		func() { b.params(c, fib) },
		func() { b.announce(c) },
		func() { b.ops(c, b.chain("DEFAULT", fmt.Sprintf("30.%d.0.0/16", seq))) },
		func() { b.ops(c, b.chain("VRF1", fmt.Sprintf("31.%d.0.0/16", seq))) },
	}
	switch f.kind {
	case "idle":
		for i := 0; i < f.at && i < len(script); i++ {
			script[i]()
		}
		b.evs = append(b.evs, SEv{Kind: "close", C: c, CloseMode: f.mode})
	case "mid":
		script[0]()
		script[1]()
		if f.at == 1 {
			script[2]()
		}
		ni, pfx := "DEFAULT", fmt.Sprintf("30.%d.0.0/16", seq)
		if f.at == 1 {
			ni, pfx = "VRF1", fmt.Sprintf("31.%d.0.0/16", seq)
		}
		b.evs = append(b.evs, SEv{Kind: "cutmid", C: c, Req: b.chain(ni, pfx), J: f.j, CloseMode: f.mode})
	}
}

func cutFaults() []cutFault {
	out := []cutFault{}
	for at := 0; at <= 4; at++ {
		for _, m := range []string{"eof", "cancel", "fail"} {
			out = append(out, cutFault{kind: "idle", at: at, mode: m})
		}
	}
	for at := 0; at <= 1; at++ {
		for j := 0; j <= 3; j++ {
			for _, m := range []string{"cancel", "fail"} {
				out = append(out, cutFault{kind: "mid", at: at, j: j, mode: m})
			}
		}
	}
	for j := 0; j <= 12; j++ {
		out = append(out, cutFault{kind: "get", j: j, mode: []string{"eof", "cancel", "fail"}[j%3]})
	}
	// a session that goes away while one of its operations is held; its successor numbers its
	// operations from the same id, and its first operation is held too
	for _, m := range []string{"eof", "cancel", "fail"} {
		out = append(out, cutFault{kind: "heldid", mode: m})
	}
	return out
}

func cutCase(name string, faults []cutFault, fib bool, flushAt int) *CaseSpec {
	b := &cutBuilder{next: 1}
	// a resident session gives the server some contents and an election id to preserve
	c := b.connect()
	b.params(c, fib)
	b.announce(c)
	b.ops(c, b.chain("DEFAULT", "1.0.0.0/8"))
	b.ops(c, b.chain("VRF1", "2.0.0.0/8"))
	for i, f := range faults {
		b.victim(f, fib, i)
		b.probe(fib, i == flushAt, i)
	}
	cfg := &SrvGenCfg{Srv: SrvCfg{Fwd: true, VRFs: []string{"VRF1"}, Default: "DEFAULT"}, Pools: DefaultPools()}
	evs := b.evs
	return &CaseSpec{Name: name, N: len(evs), Run: func(keep []int) (*Trace, error) {
		sub := make([]SEv, 0, len(keep))
		for _, k := range keep {
			if k < len(evs) {
				sub = append(sub, evs[k])
			}
		}
		return RunSrvHistory(name, cfg, sub)
	}, Inputs: func() []string {
		o := []string{name}
		for _, f := range faults {
			o = append(o, "fault "+f.String())
		}
		return o
	}}
}

func init() {
	modes["cut"] = &Mode{
		Name: "cut",
		Gen: func(seed uint64, idx int, tier string) *CaseSpec {
			fs := cutFaults()
			r := rngFor(seed, idx)
			if idx < len(fs) {
				// every single fault, once; the flush is part of every other probe
				return cutCase(fmt.Sprintf("cut/%s", fs[idx]), []cutFault{fs[idx]}, idx%2 == 0, idx%2-1)
			}
			// sequences of two to four faults
			n := 2 + r.IntN(3)
			seq := []cutFault{}
			for i := 0; i < n; i++ {
				seq = append(seq, fs[r.IntN(len(fs))])
			}
			return cutCase(fmt.Sprintf("cut/seq/%d/%d", seed, idx), seq, r.IntN(2) == 0, r.IntN(n+1)-1)
		},
		Count: func(tier string) int {
			if tier == "thorough" {
				return len(cutFaults()) + 400
			}
			return len(cutFaults()) + 40
		},
		Required: []string{"cutmid", "close.0", "close.2", "msg.ops.open"},
	}
	props["C10"] = &PropSpec{Mode: "cut", Extra: []string{"srv.flushget"}, Diffs: []string{"msg.", "ents", "elec", "master", "pend", "refs", "cut.", "get", "flush", "hang", "crash", "sess"}, Monitors: []string{"c10", "c01", "c03"}}
}

var _ = rand.Int
