package main

// The structured malformed stream: each mutation turns a valid operation into an invalid
// one and returns the validity class the model should assume ("" = the model derives the
// outcome itself from the structured fields: zero ids, empty groups, unknown instances).

import (
	"math/rand/v2"

	aftpb "github.com/openconfig/gribi/v1/proto/gribi_aft"
	enums "github.com/openconfig/gribi/v1/proto/gribi_aft/enums"
	spb "github.com/openconfig/gribi/v1/proto/service"
	wpb "github.com/openconfig/ygot/proto/ywrapper"
)

// MalformNames lists the mutation classes (for coverage reporting).
var MalformNames = []string{"noEntry", "nilKeyMsg", "zeroKey", "emptyGroup", "zeroNHInGroup", "badPrefix", "labelRange", "unknownGroupNI", "zeroGroup", "macEntry", "badAddr", "undefinedEnum", "nilPayload"}

var lastMalform string
var zeroCount int

// Malform mutates op in place; it returns the class to assert.
func Malform(r *rand.Rand, op *spb.AFTOperation) string {
	return MalformWith(r.IntN(len(MalformNames)), op)
}

func MalformWith(which int, op *spb.AFTOperation) string {
	del := op.Op == spb.AFTOperation_DELETE
	name := MalformNames[which%len(MalformNames)]
	lastMalform = name
	switch name {
	case "noEntry":
		op.Entry = nil
		return "noEntry"
	case "macEntry":
		op.Entry = &spb.AFTOperation_MacEntry{MacEntry: &aftpb.Afts_MacEntryKey{MacAddress: "00:00:00:00:00:01", MacEntry: &aftpb.Afts_MacEntry{NextHopGroup: uv(1)}}}
		return "noEntry"
	case "nilKeyMsg":
		switch t := op.Entry.(type) {
		case *spb.AFTOperation_Ipv4:
			t.Ipv4 = nil
		case *spb.AFTOperation_Ipv6:
			t.Ipv6 = nil
		case *spb.AFTOperation_Mpls:
			t.Mpls = nil
		case *spb.AFTOperation_NextHopGroup:
			t.NextHopGroup = nil
		case *spb.AFTOperation_NextHop:
			t.NextHop = nil
		}
		return "bad"
	case "zeroKey":
		switch t := op.Entry.(type) {
		case *spb.AFTOperation_NextHopGroup:
			t.NextHopGroup.Id = 0
		case *spb.AFTOperation_NextHop:
			t.NextHop.Index = 0
		}
		return ""
	case "emptyGroup":
		if t, ok := op.Entry.(*spb.AFTOperation_NextHopGroup); ok && t.NextHopGroup.NextHopGroup != nil {
			t.NextHopGroup.NextHopGroup.NextHop = nil
		}
		return ""
	case "zeroNHInGroup":
		if t, ok := op.Entry.(*spb.AFTOperation_NextHopGroup); ok && t.NextHopGroup.NextHopGroup != nil {
			// a next-hop with index zero, either alone or next to the group's other next-hops
			// (installed or not): the group is invalid whatever else it lists
			zero := &aftpb.Afts_NextHopGroup_NextHopKey{Index: 0, NextHop: &aftpb.Afts_NextHopGroup_NextHop{Weight: uv(1)}}
			zeroCount++
			if zeroCount%3 == 0 {
				t.NextHopGroup.NextHopGroup.NextHop = []*aftpb.Afts_NextHopGroup_NextHopKey{zero}
			} else {
				t.NextHopGroup.NextHopGroup.NextHop = append(t.NextHopGroup.NextHopGroup.NextHop, zero)
			}
		}
		return ""
	case "badPrefix":
		switch t := op.Entry.(type) {
		case *spb.AFTOperation_Ipv4:
			// a key that is not a prefix names nothing that could be installed: ADD and DELETE alike
			// are invalid operations
			t.Ipv4.Prefix = "not-a-prefix"
			return "bad"
		case *spb.AFTOperation_Ipv6:
			t.Ipv6.Prefix = "1.2.3.4/33"
			return "bad"
		}
		return ""
	case "labelRange":
		if t, ok := op.Entry.(*spb.AFTOperation_Mpls); ok {
			t.Mpls.Label = &aftpb.Afts_LabelEntryKey_LabelUint64{LabelUint64: 1048576 + t.Mpls.GetLabelUint64()}
			return "bad"
		}
		return ""
	case "unknownGroupNI":
		switch t := op.Entry.(type) {
		case *spb.AFTOperation_Ipv4:
			if t.Ipv4.Ipv4Entry != nil {
				t.Ipv4.Ipv4Entry.NextHopGroupNetworkInstance = sv("NO-SUCH-NI")
			}
		case *spb.AFTOperation_Ipv6:
			if t.Ipv6.Ipv6Entry != nil {
				t.Ipv6.Ipv6Entry.NextHopGroupNetworkInstance = sv("NO-SUCH-NI")
			}
		case *spb.AFTOperation_Mpls:
			if t.Mpls.LabelEntry != nil {
				t.Mpls.LabelEntry.NextHopGroupNetworkInstance = sv("NO-SUCH-NI")
			}
		}
		return ""
	case "zeroGroup":
		// the group reference is either absent or present with value zero
		var z *wpb.UintValue
		if which%2 == 0 || len(MalformNames) == 0 {
			z = uv(0)
		}
		zeroCount++
		if zeroCount%2 == 0 {
			z = uv(0)
		} else {
			z = nil
		}
		switch t := op.Entry.(type) {
		case *spb.AFTOperation_Ipv4:
			if t.Ipv4.Ipv4Entry != nil {
				t.Ipv4.Ipv4Entry.NextHopGroup = z
			}
		case *spb.AFTOperation_Ipv6:
			if t.Ipv6.Ipv6Entry != nil {
				t.Ipv6.Ipv6Entry.NextHopGroup = z
			}
		case *spb.AFTOperation_Mpls:
			if t.Mpls.LabelEntry != nil {
				t.Mpls.LabelEntry.NextHopGroup = z
			}
		}
		return ""
	case "badAddr":
		if t, ok := op.Entry.(*spb.AFTOperation_NextHop); ok && t.NextHop.NextHop != nil {
			t.NextHop.NextHop.MacAddress = sv("zz:zz")
			if !del {
				return "bad"
			}
		}
		return ""
	case "undefinedEnum":
		if t, ok := op.Entry.(*spb.AFTOperation_NextHop); ok && t.NextHop.NextHop != nil {
			t.NextHop.NextHop.EncapsulateHeader = enums.OpenconfigAftTypesEncapsulationHeaderType(99)
			if !del {
				return "bad"
			}
		}
		return ""
	case "nilPayload":
		if !del {
			// an ADD whose key message has no value message
			KeyOnly(op)
			if _, ok := op.Entry.(*spb.AFTOperation_NextHop); ok {
				return "bad"
			}
			return ""
		}
		return ""
	case "badUTF8":
		if t, ok := op.Entry.(*spb.AFTOperation_NextHop); ok && t.NextHop.NextHop != nil {
			t.NextHop.NextHop.InterfaceRef = &aftpb.Afts_NextHop_InterfaceRef{Interface: &wpb.StringValue{Value: "eth\xff\xfe"}}
			return "utf8"
		}
		return ""
	}
	return ""
}
