package main

// "gap" mode (C11, C03 under schedules): RIB histories in which some operation Y is attempted by
// another goroutine while operation X is between its table change and its bookkeeping (the
// point where rib.RIB runs the post-change hook). Because the RIB's changing operations are
// serialised, Y has to wait and the history is the sequential one X;Y — which is what the model
// is given. If Y does interleave, reference counters, held operations or contents come out wrong
// and the usual per-step comparison and monitors report it. Deterministic: no luck needed.

import (
	"fmt"

	aftpb "github.com/openconfig/gribi/v1/proto/gribi_aft"
	spb "github.com/openconfig/gribi/v1/proto/service"
)

func gapify(steps []Step, want int, pick func(n int) int) []Step {
	out := []Step{}
	for _, s := range steps {
		if s.Kind != "sethook" {
			out = append(out, s)
		}
	}
	for g := 0; g < want; g++ {
		cands := []int{}
		for i := 0; i+1 < len(out); i++ {
			a, b := out[i], out[i+1]
			if (a.Kind == "add" || a.Kind == "del") && (b.Kind == "add" || b.Kind == "del") && a.Gap == nil && b.Gap == nil && a.Cls == "" && b.Cls == "" {
				cands = append(cands, i)
			}
		}
		if len(cands) == 0 {
			break
		}
		i := cands[pick(len(cands))]
		y := out[i+1]
		out[i].Gap = &y
		out = append(out[:i+1], out[i+2:]...)
	}
	return out
}

func gapCorpus() []*CaseSpec {
	p := DefaultPools()
	ni := p.NIs[0]
	nh := func(id, idx uint64, op spb.AFTOperation_Operation) Step {
		k := "add"
		if op == spb.AFTOperation_DELETE {
			k = "del"
		}
		return Step{Kind: k, Op: &spb.AFTOperation{Id: id, NetworkInstance: ni, Op: op, Entry: &spb.AFTOperation_NextHop{NextHop: &aftpb.Afts_NextHopKey{Index: idx, NextHop: &aftpb.Afts_NextHop{IpAddress: sv("10.0.0.1")}}}}}
	}
	nhg := func(id, g, n uint64, op spb.AFTOperation_Operation) Step {
		k := "add"
		if op == spb.AFTOperation_DELETE {
			k = "del"
		}
		return Step{Kind: k, Op: &spb.AFTOperation{Id: id, NetworkInstance: ni, Op: op, Entry: &spb.AFTOperation_NextHopGroup{NextHopGroup: &aftpb.Afts_NextHopGroupKey{Id: g, NextHopGroup: &aftpb.Afts_NextHopGroup{NextHop: []*aftpb.Afts_NextHopGroup_NextHopKey{{Index: n, NextHop: &aftpb.Afts_NextHopGroup_NextHop{Weight: uv(1)}}}}}}}}
	}
	v4 := func(id uint64, pfx string, g uint64, op spb.AFTOperation_Operation) Step {
		k := "add"
		if op == spb.AFTOperation_DELETE {
			k = "del"
		}
		return Step{Kind: k, Op: &spb.AFTOperation{Id: id, NetworkInstance: ni, Op: op, Entry: &spb.AFTOperation_Ipv4{Ipv4: &aftpb.Afts_Ipv4EntryKey{Prefix: pfx, Ipv4Entry: &aftpb.Afts_Ipv4Entry{NextHopGroup: uv(g)}}}}}
	}
	with := func(x, y Step) Step { x.Gap = &y; return x }
	// a prefix in the second instance that points at a group of the first one
	other := p.NIs[1]
	xv4 := func(id uint64, pfx string, g uint64, op spb.AFTOperation_Operation) Step {
		s := v4(id, pfx, g, op)
		s.Op.NetworkInstance = other
		s.Op.Entry.(*spb.AFTOperation_Ipv4).Ipv4.Ipv4Entry.NextHopGroupNetworkInstance = sv(ni)
		return s
	}
	addOther := Step{Kind: "addni", NI: other}
	A, D := spb.AFTOperation_ADD, spb.AFTOperation_DELETE
	cfg := func(fwd bool) *RibCfg { return &RibCfg{Fwd: fwd, Pools: DefaultPools()} }
	type hc struct {
		name  string
		fwd   bool
		steps []Step
	}
	cases := []hc{
		// D20: ADD of a group overlapped by its DELETE
		{"add-nhg|del-nhg", true, []Step{nh(1, 1, A), with(nhg(2, 1, 1, A), nhg(3, 1, 1, D)), nhg(4, 1, 1, D), nh(5, 1, D)}},
		// replace of a group (other next-hop) overlapped by its DELETE
		{"replace-nhg|del-nhg", true, []Step{nh(1, 1, A), nh(2, 2, A), nhg(3, 1, 1, A), with(nhg(4, 1, 2, A), nhg(5, 1, 2, D)), nhg(6, 1, 2, D), nh(7, 1, D), nh(8, 2, D)}},
		// ADD of a prefix overlapped by the DELETE of the group it points at
		{"add-v4|del-nhg", true, []Step{nh(1, 1, A), nhg(2, 1, 1, A), with(v4(3, "1.0.0.0/8", 1, A), nhg(4, 1, 1, D)), v4(5, "1.0.0.0/8", 1, D), nhg(6, 1, 1, D), nh(7, 1, D)}},
		// DELETE of a prefix overlapped by its re-ADD
		{"del-v4|add-v4", true, []Step{nh(1, 1, A), nhg(2, 1, 1, A), v4(3, "1.0.0.0/8", 1, A), with(v4(4, "1.0.0.0/8", 1, D), v4(5, "1.0.0.0/8", 1, A)), v4(6, "1.0.0.0/8", 1, D), nhg(7, 1, 1, D), nh(8, 1, D)}},
		// DELETE of a group overlapped by the ADD of a prefix that needs it
		{"del-nhg|add-v4", true, []Step{nh(1, 1, A), nhg(2, 1, 1, A), with(nhg(3, 1, 1, D), v4(4, "1.0.0.0/8", 1, A)), nhg(5, 1, 1, D), nh(6, 1, D)}},
		{"del-nhg|add-v4/nofwd", false, []Step{nh(1, 1, A), nhg(2, 1, 1, A), with(nhg(3, 1, 1, D), v4(4, "1.0.0.0/8", 1, A)), nhg(5, 1, 1, D), nh(6, 1, D)}},
		// a next-hop that resolves a held group, overlapped by the group's DELETE
		{"add-nh-cascade|del-nhg", true, []Step{nhg(1, 1, 1, A), with(nh(2, 1, A), nhg(3, 1, 1, D)), nhg(4, 1, 1, D), nh(5, 1, D)}},
		// the same across instances: the operations touch different instances, yet they are linked by
		// the prefix's reference to a group of the other instance (and by the RIB-wide held list)
		{"x-ni/add-v4|del-nhg", true, []Step{addOther, nh(1, 1, A), nhg(2, 1, 1, A), with(xv4(3, "1.0.0.0/8", 1, A), nhg(4, 1, 1, D)), xv4(5, "1.0.0.0/8", 1, D), nhg(6, 1, 1, D), nh(7, 1, D)}},
		{"x-ni/del-nhg|add-v4", true, []Step{addOther, nh(1, 1, A), nhg(2, 1, 1, A), with(nhg(3, 1, 1, D), xv4(4, "1.0.0.0/8", 1, A)), xv4(5, "1.0.0.0/8", 1, D), nhg(6, 1, 1, D), nh(7, 1, D)}},
		{"x-ni/add-nhg-releases-held-v4|del-v4", true, []Step{addOther, nh(1, 1, A), xv4(2, "1.0.0.0/8", 1, A), with(nhg(3, 1, 1, A), xv4(4, "1.0.0.0/8", 1, D)), xv4(5, "1.0.0.0/8", 1, D), nhg(6, 1, 1, D), nh(7, 1, D)}},
		// a Flush (hook registered) overlapped by the re-ADD of a next-hop it removes: the
		// notifications, folded in the order they are delivered, give the contents
		{"hook/flush|add-nh", true, []Step{{Kind: "sethook"}, nh(1, 1, A), nhg(2, 1, 1, A), v4(3, "1.0.0.0/8", 1, A), with(Step{Kind: "flush", NIs: []string{ni}}, nh(4, 1, A)), nh(5, 1, D)}},
		{"hook/flush|add-v4-held", true, []Step{{Kind: "sethook"}, nh(1, 1, A), nhg(2, 1, 1, A), v4(3, "1.0.0.0/8", 1, A), with(Step{Kind: "flush", NIs: []string{ni}}, nh(4, 2, A)), nh(5, 2, D)}},
		// a Flush of two instances (hook registered) overlapped by the ADD of a prefix in the first
		// instance that points at a group of the second: the flush is one step, so the ADD comes
		// after all of it (the group is gone: the prefix is held), never between the instances
		{"hook/flush-three-instances|add-v4-into-first-pointing-at-third", true, func() []Step {
			// (three, not two: a goroutine that has waited for the lock gets it at the second
			// unlock at the latest — Go's mutex hands it over once a waiter has starved for 1 ms —,
			// the first unlock may be won back by the flushing goroutine itself)
			third := p.NIs[2]
			in := func(n string, st Step) Step { st.Op.NetworkInstance = n; return st }
			y := v4(6, "1.0.0.0/8", 1, A)
			y.Op.Entry.(*spb.AFTOperation_Ipv4).Ipv4.Ipv4Entry.NextHopGroupNetworkInstance = sv(third)
			return []Step{addOther, {Kind: "addni", NI: third}, {Kind: "sethook"}, nh(1, 5, A), in(other, nh(2, 7, A)), in(third, nh(3, 1, A)), in(third, nhg(4, 1, 1, A)),
				with(Step{Kind: "flush", NIs: []string{ni, other, third}}, y), in(third, nh(7, 1, A)), in(third, nhg(8, 1, 1, A))}
		}()},
		// DELETE of a next-hop overlapped by the ADD of a group listing it
		{"del-nh|add-nhg", true, []Step{nh(1, 1, A), with(nh(2, 1, D), nhg(3, 1, 1, A)), nhg(4, 1, 1, D), nh(5, 1, D)}},
	}
	out := []*CaseSpec{}
	for _, c := range cases {
		out = append(out, ribCase("gap/corpus/"+c.name, cfg(c.fwd), c.steps))
	}
	return out
}

func init() {
	modes["gap"] = &Mode{
		Name: "gap",
		Gen: func(seed uint64, idx int, tier string) *CaseSpec {
			r := rngFor(seed, idx)
			cfg := &RibCfg{Fwd: r.IntN(5) != 0, Pools: DefaultPools(), Steps: 12 + r.IntN(14), WFlush: 20, DupNH: true}
			cfg.Pools.NIs = cfg.Pools.NIs[:2]
			cfg.Pools.V4 = cfg.Pools.V4[:2]
			cfg.Pools.V6 = cfg.Pools.V6[:1]
			cfg.Pools.Labels = cfg.Pools.Labels[:1]
			cfg.Pools.NHGs = cfg.Pools.NHGs[:2]
			cfg.Pools.NHs = cfg.Pools.NHs[:2]
			steps := gapify(GenRibHistory(r, cfg), 1+r.IntN(3), r.IntN)
			return ribCase(fmt.Sprintf("gap/%d/%d", seed, idx), cfg, steps)
		},
		Count: func(tier string) int {
			if tier == "thorough" {
				return 1500
			}
			return 150
		},
		Corpus:   gapCorpus,
		Required: []string{"add.ok", "del.ok", "del.refd"},
	}
}
