#!/bin/sh
# Builds the framework from files on disk only (offline).
set -e
cd "$(dirname "$0")"
export GOFLAGS=-mod=mod GOPROXY=off
export PATH="$PATH:/opt/veriftools/lean/bin"
mkdir -p bin evidence replays
(cd lean && lake build)
cp /repo/go.sum harness/go.sum
(cd harness && go build -tags verif -o ../bin/verifharness .)
echo setup-ok
