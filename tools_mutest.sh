#!/bin/sh
# usage: tools_mutest.sh <patch.diff> <Cxx> [<Cyy> ...]   — apply a seeded change to /repo, run the checks, undo it.
P="$1"; shift
cd /repo || exit 2
git diff --quiet || { echo "repo not clean"; exit 2; }
git apply "$P" || { echo "patch does not apply"; exit 2; }
for c in "$@"; do
  (cd /verif && ./check "$c" 2>&1 | grep -E "^(VIOLATION|KNOWN|BROKEN|harness)" | head -4; echo "  -> exit $?")
done
git -C /repo checkout -- . 
git -C /repo status --short | head -3
