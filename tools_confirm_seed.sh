#!/bin/sh
# usage: tools_confirm_seed.sh <srcdir with patch.diff demo_test.go notes.txt> <seed-id> <property> "<needs>"
# Confirms in a scratch worktree that the change compiles, passes the existing tests, and that the
# demonstration fails with it and passes without it; then files it under /verif/seeded/<seed-id>/.
SRC="$1"; ID="$2"; PROP="$3"; NEEDS="$4"
export GOFLAGS=-mod=mod GOPROXY=off
WT=/tmp/confirm_$ID
rm -rf $WT; git -C /repo worktree prune
git -C /repo worktree add -q --detach $WT HEAD || exit 2
cd $WT
mkdir zz_demo && cp "$SRC/demo_test.go" zz_demo/demo_test.go
CLEAN=$(go test $DEMO_FLAGS -count=1 -timeout 300s ./zz_demo/ 2>&1 | tail -1)
git apply "$SRC/patch.diff" || { echo "patch does not apply"; cd /; git -C /repo worktree remove --force $WT; exit 2; }
BUILD=$(go build ./... 2>&1 && go vet -tags verif ./rib ./server >/dev/null 2>&1; go build -tags verif ./... 2>&1 | tail -1)
MUT=$(go test $DEMO_FLAGS -count=1 -timeout 300s ./zz_demo/ 2>&1 | tail -1)
rm -rf zz_demo
SUITE=$(go test -vet=off -count=1 -timeout 25m ./... 2>&1 | grep -v "no test files" | awk '{print $1}' | sort | uniq -c | tr '\n' ' ')
cd /
git -C /repo worktree remove --force $WT
echo "clean-demo: $CLEAN | mutated-demo: $MUT | build: [$BUILD] | suite: $SUITE"
case "$CLEAN" in ok*) ;; *) echo "REJECT: demo does not pass on clean tree"; exit 1;; esac
case "$MUT" in FAIL*|*FAIL*) ;; *) echo "REJECT: demo does not fail with the change"; exit 1;; esac
case "$SUITE" in *FAIL*) echo "REJECT: existing tests fail with the change"; exit 1;; esac
mkdir -p /verif/seeded/$ID
cp "$SRC/patch.diff" "$SRC/demo_test.go" /verif/seeded/$ID/
[ -f "$SRC/notes.txt" ] && cp "$SRC/notes.txt" /verif/seeded/$ID/notes.txt
python3 - "$ID" "$PROP" "$NEEDS" "$CLEAN" "$MUT" "$SUITE" <<'PY'
import json,sys
id,prop,needs,clean,mut,suite=sys.argv[1:7]
json.dump({"id":id,"breaks_property":prop,"needs_to_manifest":needs,
 "confirmed":{"demo_on_clean_tree":clean,"demo_with_change":mut,"existing_suite_with_change":suite,
   "how":"scratch worktree of /repo HEAD; go test ./zz_demo before and after git apply; go build ./... and -tags verif; go test -vet=off -count=1 ./... with the change"},
 "detected_by":[]}, open(f"/verif/seeded/{id}/meta.json","w"), indent=1)
PY
echo "FILED $ID"
