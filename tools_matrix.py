#!/usr/bin/env python3
"""tools_matrix.py [seed-id ...] — runs the registered checks against every seeded change.

Works on a private copy of /verif (/tmp/vcopy) and a scratch worktree of /repo (/tmp/mrepo), so
that /repo and /verif stay usable meanwhile. For each /verif/seeded/<id>: apply patch.diff to the
scratch worktree, run `check <property>` (quick) for the property the change breaks, record the
verdict lines, undo. Writes detected_by into each meta.json and /verif/seeded/MATRIX.md.
Bookkeeping only: the registered checks and the committed evidence always run against /repo."""
import json, os, subprocess, sys, shutil, re
V="/verif"; C="/tmp/vcopy"; R="/tmp/mrepo"
def sh(cmd, **kw): return subprocess.run(cmd, shell=True, text=True, stdout=subprocess.PIPE, stderr=subprocess.STDOUT, **kw)
sh(f"rm -rf {C}; git -C /repo worktree remove --force {R} 2>/dev/null; git -C /repo worktree prune; git -C /repo worktree add -q --detach {R} HEAD")
sh(f"mkdir -p {C} && rsync -a --exclude .git --exclude replays --exclude bin --exclude seeded {V}/ {C}/")
sh(f"sed -i 's#=> /repo#=> {R}#' {C}/harness/go.mod && sed -i 's#\"/repo\"#\"{R}\"#g; s#\"/repo/go.sum\"#\"{R}/go.sum\"#' {C}/check")
ids=sys.argv[1:] or sorted(d for d in os.listdir(f"{V}/seeded") if os.path.isdir(f"{V}/seeded/{d}"))
extra={"C11-rib-ops-not-serialised":["C11"],"C05-nonatomic-election":["C05","C11"],"C07-getrib-unlocks-around-send":["C07","C11"],"C19-get-response-check-stops-after-first-want":["C19","C17"],"C13-reset-keeps-requests-buffered-for-dead-sender":["C13","C14"],"C02-delete-judged-outside-transaction-lock":["C02","C11"],"C11-election-rlock-held-across-result-handoff":["C11","C10"],"C15-nhg-replace-kept-next-hop-leaks-reference":["C15","C03"],"C04-flush-gate-orders-ids-with-words-swapped":["C04","C08"],"C02-replaced-entrys-group-uncounted-in-new-entrys-instance":["C02","C03"],"C19-get-check-lets-a-group-stand-in-for-a-next-hop":["C19","C17"],"C01-flush-of-several-instances-takes-the-transaction-lock-per-instance":["C01","C02","C11"]}
rows=[]
for sid in ids:
    meta=json.load(open(f"{V}/seeded/{sid}/meta.json"))
    props=extra.get(sid,[meta["breaks_property"]])
    r=sh(f"git -C {R} checkout -q -- . && git -C {R} apply {V}/seeded/{sid}/patch.diff")
    if r.returncode!=0:
        rows.append((sid,props[0],"patch does not apply: "+r.stdout.strip()[:100])); print(rows[-1],flush=True); continue
    det=[]
    for p in props:
        if not any(p==k for k in json.load(open(f"{C}/obligations.json"))):
            det.append({"check":p,"verdict":"no check registered"}); continue
        r=sh(f"cd {C} && timeout 600 ./check {p}", timeout=700)
        lines=[l for l in r.stdout.split("\n") if l.startswith("VIOLATION") or l.startswith("BROKEN") or l.startswith("  MONFAIL") or l.startswith("  correspondence") or l.startswith("  the ")]
        v=[l for l in r.stdout.split("\n") if l.startswith("VIOLATION")]
        if r.returncode==1 and v:
            withinput=[l for l in v if not l.rstrip().endswith("no-failing-input-found")]
            first=""
            for i,l in enumerate(lines):
                if l.startswith("VIOLATION") and (not withinput or not l.rstrip().endswith("no-failing-input-found")):
                    first=lines[i+1].strip() if i+1<len(lines) and not lines[i+1].startswith("VIOLATION") else ""
                    break
            det.append({"check":p,"verdict":"VIOLATION with failing input" if withinput else "VIOLATION no-failing-input-found","first":re.sub(r"trace=\S+ line=\d+ ","",first)[:260]})
        elif r.returncode==0:
            det.append({"check":p,"verdict":"MISSED"})
        else:
            det.append({"check":p,"verdict":"BROKEN: "+" ".join(lines)[:200]})
    meta["detected_by"]=det
    json.dump(meta,open(f"{V}/seeded/{sid}/meta.json","w"),indent=1)
    rows.append((sid,",".join(props),"; ".join(f"{d['check']}: {d['verdict']}"+(f" — {d.get('first','')}" if d.get('first') else "") for d in det)))
    print(rows[-1],flush=True)
sh(f"git -C {R} checkout -q -- .; git -C /repo worktree remove --force {R}; rm -rf {C}")
# regenerate the table from all meta files
out=["# Seeded changes and the checks that catch them","","| seeded change | breaks | verdict of the registered check(s) |","|---|---|---|"]
for sid in sorted(d for d in os.listdir(f"{V}/seeded") if os.path.isdir(f"{V}/seeded/{d}")):
    m=json.load(open(f"{V}/seeded/{sid}/meta.json"))
    out.append(f"| {sid} | {m['breaks_property']} | "+"; ".join(f"{d['check']}: {d['verdict']}"+(f" — `{d.get('first','')}`" if d.get('first') else "") for d in m.get("detected_by",[]))+" |")
open(f"{V}/seeded/MATRIX.md","w").write("\n".join(out)+"\n")
