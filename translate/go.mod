module verifgen

go 1.23
