// verifgen: a small translator from a restricted subset of Go to Lean 4.
//
// It re-reads gribigo's sources on every check run and translates a fixed list of decision
// functions (see specs.go) statement by statement into Lean definitions (Gribi/Gen.lean) over
// the vocabulary of Gribi/GenPrelude.lean. The theorems of Gribi/Props/GenEquiv.lean then
// state that each generated definition agrees with the hand-written model for every input;
// they are re-checked by the Lean kernel against what the code says now.
//
// The subset: if / else, tag-less and tagged switch, return, := and = of pure expressions,
// assignments to designated state fields (threaded through and returned), calls of other
// translated functions, calls declared as oracles (their results become parameters of the
// generated definition) or effects (recorded in order), log calls and mutex calls (skipped).
// Expressions: identifiers, field selections and protobuf getters, nil tests, comparisons,
// && || !, uint128.New / Cmp / Equals, integer and string literals, enumeration constants,
// the status / response constructors the server uses.
//
// Pointers are Options. A dereference is translated only where the pointer is known to be
// non-nil on that path (a dominating nil test, or a declared precondition of the function);
// otherwise the translation fails ("possible nil dereference"), which the check reports as a
// proof obligation that no longer holds.
//
// Anything outside the subset makes the translation of that function fail: the definition is
// replaced by an `#eval`-free stub that does not type-check against its equivalence theorem,
// so the obligation breaks rather than silently passing.
package main

import (
	"flag"
	"fmt"
	"go/ast"
	"go/parser"
	"go/token"
	"os"
	"path/filepath"
	"sort"
	"strconv"
	"strings"
)

// ---------------------------------------------------------------- kinds and schemas

type kind struct {
	k  string // bool u64 nat int str u128 ptr struct enum unit tuple status statusval mresp
	s  string // struct name (ptr/struct), enum prefix
	t  []kind // tuple components
	nn bool   // ptr: the pointer is never nil (an invariant of the data structure, stated in specs.go)
	keyed    bool // list: stands for a Go map; elements carry their key in field Key; order arbitrary
	optElems bool // list: the elements are pointers that may be nil
	elemNN bool // list: the elements are non-nil pointers (the list holds the structs themselves)
}

func (k kind) String() string { return k.k + ":" + k.s }

var (
	kBool = kind{k: "bool"}
	kU64  = kind{k: "u64"}
	kNat  = kind{k: "nat"}
	kInt  = kind{k: "int"}
	kStr  = kind{k: "str"}
	kU128 = kind{k: "u128"}
	kEnum = kind{k: "enum"}
)

// mapKey: the key kind of a Go map (t[0] when given; a string otherwise)
func mapKey(k kind) kind {
	if len(k.t) > 0 {
		return k.t[0]
	}
	return kStr
}

// listOf: pointer-like names that stand for a Go slice that may be nil (Option (List _))
var listOf = map[string]kind{
	"AFTResultList": {k: "list", s: "AFTResultC", elemNN: true},
}

func kPtr(s string) kind   { return kind{k: "ptr", s: s} }
func kPtrNN(s string) kind { return kind{k: "ptr", s: s, nn: true} }

// errPairs: path of an error value -> the pointer it is paired with (err != nil <=> ptr == nil)
var errPairs = map[string]val{}

// mapEntryExprs: path of a pointer read from a map of pointers -> the index expression it was read
// with (an assignment through such a pointer changes the entry of the map)
var mapEntryExprs = map[string]*ast.IndexExpr{}

// okPairs: path of the bool of a (pointer, ok) result pair -> the pointer (ok <=> pointer != nil)
var okPairs = map[string]val{}

type field struct {
	goName, lean string
	kd           kind
}

// schemas: the Go structs the translated code touches and their Lean shape (GenPrelude.lean).
// Structs declared in /repo are re-checked against the source by checkRepoStructs.
var schemas = map[string][]field{
	"Uint128":           {{"Low", "lo", kU64}, {"High", "hi", kU64}},
	"electionDetails":   {{"master", "master", kStr}, {"ID", "ID", kPtr("Uint128")}, {"client", "client", kStr}, {"clientLatest", "clientLatest", kPtr("Uint128")}},
	"clientParams":      {{"Persist", "Persist", kBool}, {"ExpectElecID", "ExpectElecID", kBool}, {"FIBAck", "FIBAck", kBool}},
	// clientState.params is never nil: newClient stores &clientParams{} and setClientParams a fresh literal
	"clientState":       {{"params", "params", kPtrNN("clientParams")}, {"setParams", "setParams", kBool}, {"lastElecID", "lastElecID", kPtr("Uint128")}},
	"SessionParameters": {{"Redundancy", "Redundancy", kEnum}, {"Persistence", "Persistence", kEnum}, {"AckType", "AckType", kEnum}},
	"FlushRequest":      {{"NetworkInstance", "NetworkInstance", kind{k: "oneof", s: "FlushNI"}}, {"Override", "Override", kPtr("Unit")}, {"Id", "Id", kPtr("Uint128")}},
	"OpResult":          {{"ID", "ID", kNat}},
	"AFTOperation":      {{"Id", "Id", kNat}, {"ElectionId", "ElectionId", kPtr("Uint128")}, {"Op", "Op", kEnum}, {"NetworkInstance", "NetworkInstance", kStr}},
	"GetRequestG":       {{"NetworkInstance", "NetworkInstance", kind{k: "oneof", s: "GetNI"}}, {"Aft", "Aft", kEnum}},
	"CandRIB":           {{"Afts", "Afts", kPtr("CandAfts")}},
	"CandAfts": {{"NextHop", "NextHop", kind{k: "list", s: "CandNH", elemNN: true, keyed: true}}, {"NextHopGroup", "NextHopGroup", kind{k: "list", s: "CandNHG", elemNN: true, keyed: true}},
		{"Ipv4Entry", "Ipv4Entry", kind{k: "list", s: "CandTop", elemNN: true, keyed: true}}, {"Ipv6Entry", "Ipv6Entry", kind{k: "list", s: "CandTop", elemNN: true, keyed: true}},
		{"LabelEntry", "LabelEntry", kind{k: "list", s: "CandTop", elemNN: true, keyed: true}},
		{"MacEntry", "MacEntry", kind{k: "list", s: "Unit", elemNN: true}}, {"PolicyForwardingEntry", "PolicyForwardingEntry", kind{k: "list", s: "Unit", elemNN: true}}},
	"CandNH":    {{"Key", "Key", kNat}, {"Index", "Index", kNat}},
	"CandNHG":   {{"Key", "Key", kNat}, {"Id", "Id", kNat}, {"NextHop", "NextHop", kind{k: "list", s: "CandNH", elemNN: true, keyed: true}}},
	"CandTop":   {{"Key", "Key", kNat}, {"NextHopGroup", "NextHopGroup", kNat}, {"NextHopGroupNetworkInstance", "NextHopGroupNetworkInstance", kStr}},
	// the fluent builders: the protobufs they compose
	"BytesValue":  {{"Value", "Value", kStr}},
	"TopEntryB":   {{"NextHopGroup", "NextHopGroup", kPtr("UintValue")}, {"NextHopGroupNetworkInstance", "NextHopGroupNetworkInstance", kPtr("StringValue")}, {"EntryMetadata", "EntryMetadata", kPtr("BytesValue")}},
	"Ipv4KeyB":    {{"Prefix", "Prefix", kStr}, {"Ipv4Entry", "Ipv4Entry", kPtrNN("TopEntryB")}},
	"Ipv6KeyB":    {{"Prefix", "Prefix", kStr}, {"Ipv6Entry", "Ipv6Entry", kPtrNN("TopEntryB")}},
	"PoppedU":     {{"PoppedMplsLabelStackUint64", "PoppedMplsLabelStackUint64", kNat}},
	"LabelEntryB": {{"NextHopGroup", "NextHopGroup", kPtr("UintValue")}, {"NextHopGroupNetworkInstance", "NextHopGroupNetworkInstance", kPtr("StringValue")}, {"PoppedMplsLabelStack", "PoppedMplsLabelStack", kind{k: "list", s: "PoppedU", elemNN: true}}},
	"LabelKeyB":   {{"Label", "Label", kind{k: "oneof", s: "LabelU"}}, {"LabelEntry", "LabelEntry", kPtrNN("LabelEntryB")}},
	"NhgNhB":      {{"Weight", "Weight", kPtr("UintValue")}},
	"NhgNhKeyB":   {{"Index", "Index", kNat}, {"NextHop", "NextHop", kPtr("NhgNhB")}},
	"NhgPayloadB": {{"BackupNextHopGroup", "BackupNextHopGroup", kPtr("UintValue")}, {"NextHop", "NextHop", kind{k: "list", s: "NhgNhKeyB", elemNN: true}}},
	"NhgKeyB":     {{"Id", "Id", kNat}, {"NextHopGroup", "NextHopGroup", kPtrNN("NhgPayloadB")}},
	"BoolValue":   {{"Value", "Value", kBool}},
	"IfRefB":      {{"Interface", "Interface", kPtr("StringValue")}, {"Subinterface", "Subinterface", kPtr("UintValue")}},
	"IpInIpB":     {{"SrcIp", "SrcIp", kPtr("StringValue")}, {"DstIp", "DstIp", kPtr("StringValue")}},
	"PushedU":     {{"PushedMplsLabelStackUint64", "PushedMplsLabelStackUint64", kNat}},
	"NhPayloadB": {{"IpAddress", "IpAddress", kPtr("StringValue")}, {"InterfaceRef", "InterfaceRef", kPtr("IfRefB")}, {"MacAddress", "MacAddress", kPtr("StringValue")}, {"IpInIp", "IpInIp", kPtr("IpInIpB")},
		{"NetworkInstance", "NetworkInstance", kPtr("StringValue")}, {"PopTopLabel", "PopTopLabel", kPtr("BoolValue")}, {"PushedMplsLabelStack", "PushedMplsLabelStack", kind{k: "list", s: "PushedU", elemNN: true}},
		{"DecapsulateHeader", "DecapsulateHeader", kEnum}, {"EncapsulateHeader", "EncapsulateHeader", kEnum}, {"EncapHeader", "EncapHeader", kNat}},
	"NhKeyB":       {{"Index", "Index", kNat}, {"NextHop", "NextHop", kPtr("NhPayloadB")}},
	"nextHopEntry": {{"ni", "ni", kStr}, {"pb", "pb", kPtrNN("NhKeyB")}, {"electionID", "electionID", kPtr("Uint128")}},
	"ipv4Entry":         {{"pb", "pb", kPtrNN("Ipv4KeyB")}, {"ni", "ni", kStr}, {"electionID", "electionID", kPtr("Uint128")}},
	"ipv6Entry":         {{"pb", "pb", kPtrNN("Ipv6KeyB")}, {"ni", "ni", kStr}, {"electionID", "electionID", kPtr("Uint128")}},
	"labelEntry":        {{"ni", "ni", kStr}, {"pb", "pb", kPtrNN("LabelKeyB")}, {"electionID", "electionID", kPtr("Uint128")}},
	"nextHopGroupEntry": {{"ni", "ni", kStr}, {"pb", "pb", kPtrNN("NhgKeyB")}, {"electionID", "electionID", kPtr("Uint128")}},
	"AFTOperationB": {{"NetworkInstance", "NetworkInstance", kStr}, {"Entry", "Entry", kind{k: "oneof", s: "EntryB"}}, {"ElectionId", "ElectionId", kPtr("Uint128")}},
	"AFTEntryB":     {{"NetworkInstance", "NetworkInstance", kStr}, {"Entry", "Entry", kind{k: "oneof", s: "EntryB"}}},
	"FlushRequestB": {{"Election", "Election", kind{k: "oneof", s: "FlushElec"}}, {"NetworkInstance", "NetworkInstance", kind{k: "oneof", s: "FlushNI"}}},
	"ConvTok":           {{"Tag", "Tag", kNat}},
	"ReconOpX":          {{"Id", "Id", kNat}, {"NetworkInstance", "NetworkInstance", kStr}, {"Op", "Op", kEnum}, {"Entry", "Entry", kind{k: "oneof", s: "ReconEntryX"}}},
	"MplsLabelU":        {{"MplsLabelStackUint64", "MplsLabelStackUint64", kNat}},
	"EhMplsB":           {{"MplsLabelStack", "MplsLabelStack", kind{k: "list", s: "MplsLabelU", elemNN: true}}},
	"EhUdpB": {{"Dscp", "Dscp", kPtr("UintValue")}, {"DstIp", "DstIp", kPtr("StringValue")}, {"DstUdpPort", "DstUdpPort", kPtr("UintValue")}, {"IpTtl", "IpTtl", kPtr("UintValue")},
		{"SrcIp", "SrcIp", kPtr("StringValue")}, {"SrcUdpPort", "SrcUdpPort", kPtr("UintValue")}},
	"EhMplsHdrB":        {{"Type", "Type_", kEnum}, {"Mpls", "Mpls", kPtrNN("EhMplsB")}},
	"EhUdpHdrB":         {{"Type", "Type_", kEnum}, {"UdpV6", "UdpV6", kPtrNN("EhUdpB")}},
	"mplsEncapHeader":   {{"pb", "pb", kPtrNN("EhMplsHdrB")}},
	"udpv6EncapHeader":  {{"pb", "pb", kPtrNN("EhUdpHdrB")}},
	"opResult":          {{"r", "r", kPtrNN("COpResult")}},
	"gRIBIGet":          {{"pb", "pb", kPtrNN("GetRequestG")}},
	"gRIBIFlush":        {{"pb", "pb", kPtrNN("FlushRequestB")}},
	"ModifyRequestE":    {{"ElectionId", "ElectionId", kPtr("Uint128")}},
	"ReqTok":            {{"Tag", "Tag", kNat}},
	"ModifyRequestF":    {{"Operation", "Operation", kind{k: "list", s: "AFTOperation", elemNN: true}}},
	"gRIBIConnection":   {{"redundMode", "redundMode", kEnum}},
	"ModifyRequest":     {{"Params", "Params", kPtr("SessionParameters")}, {"ElectionId", "ElectionId", kPtr("Uint128")}, {"Operation", "Operation", kPtr("Unit")}},
	// the client (client/gribiclient.go)
	"pendingQueue": {{"Ops", "Ops", kind{k: "map", s: "PendingOp", t: []kind{kNat}}}, {"Election", "Election", kPtr("ElectionReqDetails")}, {"SessionParams", "SessionParams", kPtr("SessionParamReqDetails")}},
	"IPv4EntryC":  {{"Prefix", "Prefix", kStr}, {"Ipv4Entry", "Ipv4Entry", kPtr("Unit")}},
	"IPv6EntryC":  {{"Prefix", "Prefix", kStr}, {"Ipv6Entry", "Ipv6Entry", kPtr("Unit")}},
	"LabelEntryC": {{"LabelUint64", "LabelUint64", kNat}, {"LabelEntry", "LabelEntry", kPtr("Unit")}},
	"NHGEntryC":   {{"Id", "Id", kNat}, {"NextHopGroup", "NextHopGroup", kPtr("Unit")}},
	// the RIB's orchestration (rib/rib.go)
	"pendingEntry": {{"ni", "ni", kStr}, {"op", "op", kPtrNN("AFTOperationC")}},
	"KeyRIB":  {},
	// chk.GetResponseHasEntries
	"GPrefix": {{"Prefix", "Prefix", kStr}},
	"GLabel":  {{"LabelUint64", "LabelUint64", kNat}, {"LabelIsUint64", "LabelIsUint64", kBool}},
	"GId":     {{"Id", "Id", kNat}},
	"GIndex":  {{"Index", "Index", kNat}},
	"GAFTEntry": {{"NetworkInstance", "NetworkInstance", kStr}, {"Entry", "Entry", kind{k: "oneof", s: "GEntryKind"}}},
	"cache": {{"ipv4", "ipv4", kind{k: "map", s: "GAFTEntry", t: []kind{kStr}}}, {"ipv6", "ipv6", kind{k: "map", s: "GAFTEntry", t: []kind{kStr}}},
		{"mpls", "mpls", kind{k: "map", s: "GAFTEntry", t: []kind{kNat}}}, {"nhg", "nhg", kind{k: "map", s: "GAFTEntry", t: []kind{kNat}}}, {"nh", "nh", kind{k: "map", s: "GAFTEntry", t: []kind{kNat}}}},
	"GetResponseG": {{"Entry", "Entry", kind{k: "list", s: "GAFTEntry", elemNN: true}}},
	// the reconciler: both element schemas are the Lean structure ReconEnt, keyed by its string or its number
	"ReconEntS": {{"Key", "KeyS", kStr}, {"Body", "Body", kNat}},
	"ReconEntN": {{"Key", "KeyN", kNat}, {"Body", "Body", kNat}},
	"ReconAfts": {{"Ipv4Entry", "Ipv4Entry", kind{k: "list", s: "ReconEntS", elemNN: true, keyed: true}}, {"Ipv6Entry", "Ipv6Entry", kind{k: "list", s: "ReconEntS", elemNN: true, keyed: true}},
		{"LabelEntry", "LabelEntry", kind{k: "list", s: "ReconEntN", elemNN: true, keyed: true}}, {"NextHopGroup", "NextHopGroup", kind{k: "list", s: "ReconEntN", elemNN: true, keyed: true}},
		{"NextHop", "NextHop", kind{k: "list", s: "ReconEntN", elemNN: true, keyed: true}}},
	"ReconNI": {{"Afts", "Afts", kPtrNN("ReconAfts")}},
	"ReconOp": {{"Id", "Id", kNat}, {"NetworkInstance", "NetworkInstance", kStr}, {"Op", "Op", kEnum}, {"Kind", "Kind", kNat}, {"Entry", "Entry", kPtr("ReconEntS")}},
	"TblEntry": {{"NextHop", "NextHop", kind{k: "list", s: "OrigNHGMember", elemNN: true, keyed: true}}},
	"NewElem": {{"Key", "Key", kNat}},
	"NewAfts": {{"Ipv4Entry", "Ipv4Entry", kind{k: "list", s: "NewElem", elemNN: true, keyed: true}}, {"Ipv6Entry", "Ipv6Entry", kind{k: "list", s: "NewElem", elemNN: true, keyed: true}},
		{"LabelEntry", "LabelEntry", kind{k: "list", s: "NewElem", elemNN: true, keyed: true}}, {"NextHopGroup", "NextHopGroup", kind{k: "list", s: "NewElem", elemNN: true, keyed: true}},
		{"NextHop", "NextHop", kind{k: "list", s: "NewElem", elemNN: true, keyed: true}}},
	"NewRIB":  {{"Afts", "Afts", kPtrNN("NewAfts")}},
	"OrigTop":       {{"NextHopGroupNetworkInstance", "NextHopGroupNetworkInstance", kStr}, {"NextHopGroup", "NextHopGroup", kNat}, {"Prefix", "Prefix", kStr}, {"Label", "Label", kNat}},
	"OrigNHGMember": {{"Key", "Key", kNat}, {"Index", "Index", kNat}},
	"StringValue":   {{"Value", "Value", kStr}},
	"UintValue":     {{"Value", "Value", kNat}},
	"NewTop":        {{"NextHopGroupNetworkInstance", "NextHopGroupNetworkInstance", kPtr("StringValue")}, {"NextHopGroup", "NextHopGroup", kPtr("UintValue")}},
	"NewNHGMember":  {{"Index", "Index", kNat}},
	"NewNHG":        {{"NextHop", "NextHop", kind{k: "list", s: "NewNHGMember", elemNN: true}}},
	"OrigNHG":       {{"NextHop", "NextHop", kind{k: "list", s: "OrigNHGMember", elemNN: true, keyed: true}}},
	"ErrView":       {{"AsClientErr", "AsClientErr", kPtr("ClientErrG")}},
	"ClientErrG":    {{"Send", "Send", kind{k: "list", s: "Status", elemNN: true}}, {"Recv", "Recv", kind{k: "list", s: "GStatus", optElems: true}}},
	"GStatus":       {{"Code", "Code", kNat}, {"Message", "Message", kStr}, {"Details", "Details", kPtr("StrBox")}},
	"StrBox":        {},
	"ErrOptG":       {{"IsAllowUnimplemented", "IsAllowUnimplemented", kBool}, {"IsIgnoreDetails", "IsIgnoreDetails", kBool}},
	"HolderG":       {{"name", "name", kStr}, {"postChangeHook", "postChangeHook", kPtr("Unit")}, {"opts", "opts", kind{k: "list", s: "Nat", elemNN: true}}},
	"FlNHG":         {{"BackupNextHopGroup", "BackupNextHopGroup", kPtr("UintBox")}},
	"UintBox":       {},
	"FlushErr":      {{"Errs", "Errs", kind{k: "list", s: "Status", elemNN: true}}},
	"RibOpResult":  {{"ID", "ID", kNat}},
	"NHEntryC":    {{"Index", "Index", kNat}},
	"AFTOperationC": {{"Id", "Id", kNat}, {"Op", "Op", kEnum}, {"Entry", "Entry", kind{k: "oneof", s: "AFTEntry"}}},
	"ModifyRequestC": {{"Operation", "Operation", kind{k: "list", s: "AFTOperationC", elemNN: true}}, {"ElectionId", "ElectionId", kPtr("Uint128")}, {"Params", "Params", kPtr("SessionParameters")}},
	"AFTErrorDetails": {{"ErrorMessage", "ErrorMessage", kStr}},
	"AFTResultC":      {{"Id", "Id", kNat}, {"Status", "Status", kEnum}, {"ErrorDetails", "ErrorDetails", kPtr("AFTErrorDetails")}},
	"SessionParametersResult": {{"Status", "Status", kEnum}},
	"ModifyResponseC": {{"Result", "Result", kPtr("AFTResultList")}, {"ElectionId", "ElectionId", kPtr("Uint128")}, {"SessionParamsResult", "SessionParamsResult", kPtr("SessionParametersResult")}},
	// PendingOp.Op is never nil: addPendingOp stores an operation it has dereferenced
	"PendingOp":              {{"Timestamp", "Timestamp", kInt}, {"Op", "Op", kPtrNN("AFTOperationC")}},
	"ElectionReqDetails":     {{"Timestamp", "Timestamp", kInt}, {"ID", "ID", kPtr("Uint128")}},
	"SessionParamReqDetails": {{"Timestamp", "Timestamp", kInt}, {"Outgoing", "Outgoing", kPtr("SessionParameters")}},
	"OpDetailsResults": {{"Type", "Type_", kEnum}, {"NextHopIndex", "NextHopIndex", kNat}, {"NextHopGroupID", "NextHopGroupID", kNat}, {"IPv4Prefix", "IPv4Prefix", kStr}, {"IPv6Prefix", "IPv6Prefix", kStr}, {"MPLSLabel", "MPLSLabel", kNat}},
	"COpResult": {{"Timestamp", "Timestamp", kInt}, {"Latency", "Latency", kInt}, {"CurrentServerElectionID", "CurrentServerElectionID", kPtr("Uint128")}, {"SessionParameters", "SessionParameters", kPtr("SessionParametersResult")},
		{"OperationID", "OperationID", kNat}, {"ClientError", "ClientError", kStr}, {"ServerError", "ServerError", kStr}, {"ProgrammingResult", "ProgrammingResult", kEnum}, {"Details", "Details", kPtr("OpDetailsResults")}},
}

var leanStruct = map[string]string{
	"Uint128": "U128", "electionDetails": "ElectionDetails", "clientParams": "ClientParams", "clientState": "ClientState",
	"SessionParameters": "SessionParameters", "FlushRequest": "FlushRequest", "ModifyRequest": "ModifyRequest", "Unit": "Unit", "OpResult": "OpResult", "AFTOperation": "AFTOperation", "String": "String", "ModifyRequestF": "ModifyRequestF", "gRIBIConnection": "GRIBIConnection", "GetRequestG": "GetRequestG", "CandRIB": "CandRIB", "CandAfts": "CandAfts", "CandNH": "CandNH", "CandNHG": "CandNHG", "CandTop": "CandTop",
	"IPv4EntryC": "IPv4EntryC", "IPv6EntryC": "IPv6EntryC", "LabelEntryC": "LabelEntryC", "NHGEntryC": "NHGEntryC", "NHEntryC": "NHEntryC", "AFTOperationC": "AFTOperationC", "ModifyRequestC": "ModifyRequestC",
	"AFTErrorDetails": "AFTErrorDetails", "AFTResultC": "AFTResultC", "SessionParametersResult": "SessionParametersResult", "ModifyResponseC": "ModifyResponseC", "PendingOp": "PendingOp",
	"ElectionReqDetails": "ElectionReqDetails", "SessionParamReqDetails": "SessionParamReqDetails", "OpDetailsResults": "OpDetailsResults", "COpResult": "COpResult",
	"AFTResultList": "(List AFTResultC)", "Bool": "Bool", "pendingQueue": "PendingQueue", "pendingEntry": "PendingEntry", "RibOpResult": "RibOpResult", "OrigTop": "OrigTop", "OrigNHGMember": "OrigNHGMember", "OrigNHG": "OrigNHG", "KeyRIB": "KeyRIB", "GPrefix": "GPrefix", "GLabel": "GLabel", "GId": "GId", "GIndex": "GIndex", "GAFTEntry": "GAFTEntry", "cache": "GetCache", "GetResponseG": "GetResponseG", "ReconEntS": "ReconEnt", "ReconEntN": "ReconEnt", "ReconAfts": "ReconAfts", "ReconNI": "ReconNI", "ReconOp": "ReconOp", "TblEntry": "TblEntry", "NewElem": "NewElem", "NewAfts": "NewAfts", "NewRIB": "NewRIB", "StringValue": "StringValue", "UintValue": "UintValue", "NewTop": "NewTop", "NewNHGMember": "NewNHGMember", "NewNHG": "NewNHG", "FlNHG": "FlNHG", "HolderG": "HolderG", "ErrView": "ErrView", "ClientErrG": "ClientErrG", "GStatus": "GStatus", "StrBox": "String", "ErrOptG": "ErrOptG", "UintBox": "Nat", "FlushErr": "FlushErr", "Nat": "Nat", "Status": "Status",
	"BytesValue": "BytesValue", "TopEntryB": "TopEntryB", "Ipv4KeyB": "Ipv4KeyB", "Ipv6KeyB": "Ipv6KeyB", "PoppedU": "PoppedU", "LabelEntryB": "LabelEntryB", "LabelKeyB": "LabelKeyB", "NhgNhB": "NhgNhB", "NhgNhKeyB": "NhgNhKeyB", "NhgPayloadB": "NhgPayloadB", "NhgKeyB": "NhgKeyB", "AFTOperationB": "AFTOperationB", "AFTEntryB": "AFTEntryB", "FlushRequestB": "FlushRequestB",
	"BoolValue": "BoolValue", "IfRefB": "IfRefB", "IpInIpB": "IpInIpB", "PushedU": "PushedU", "NhPayloadB": "NhPayloadB", "NhKeyB": "NhKeyB", "nextHopEntry": "NhBuilder",
	"ConvTok": "ConvTok", "ReconOpX": "ReconOpX", "opResult": "OpResultBuilder",
	"MplsLabelU": "MplsLabelU", "EhMplsB": "EhMplsB", "EhUdpB": "EhUdpB", "EhMplsHdrB": "EhMplsHdrB", "EhUdpHdrB": "EhUdpHdrB", "mplsEncapHeader": "MplsHdrBuilder", "udpv6EncapHeader": "UdpHdrBuilder",
	"ModifyRequestE": "ModifyRequestE", "ReqTok": "ReqTok", "gRIBIGet": "GetBuilder", "gRIBIFlush": "FlushBuilder",
	"ipv4Entry": "Ipv4Builder", "ipv6Entry": "Ipv6Builder", "labelEntry": "LabelBuilder", "nextHopGroupEntry": "NhgBuilder",
}

func leanType(k kind) string {
	switch k.k {
	case "bool":
		return "Bool"
	case "u64":
		return "UInt64"
	case "nat", "enum":
		return "Nat"
	case "int":
		return "Int"
	case "str":
		return "String"
	case "u128":
		return "U128"
	case "ptr":
		if k.nn {
			return leanStruct[k.s]
		}
		return "Option " + leanStruct[k.s]
	case "statusval":
		return "Status"
	case "oneof":
		return "Option " + k.s
	case "fresp":
		return "Option FlushResult"
	case "set":
		if k.s == "String" {
			return "List String"
		}
		return "List Nat"
	case "any":
		return "AnyKey"
	case "map":
		return "(Map " + leanType(mapKey(k)) + " " + leanStruct[k.s] + ")"
	case "aftresult":
		return "(Nat × AftSt)"
	case "list":
		if k.s == "AFTResult" {
			return "List (Nat × AftSt)"
		}
		if k.optElems {
			return "List (Option " + leanStruct[k.s] + ")"
		}
		return "List " + leanStruct[k.s]
	case "struct":
		return leanStruct[k.s]
	case "status":
		return "Option Status"
	case "mresp":
		return "Option MResp"
	case "fun":
		t := ""
		for _, a := range k.t[1:] {
			t += leanType(a) + " → "
		}
		return "(" + t + leanType(k.t[0]) + ")"
	case "tuple":
		var p []string
		for _, c := range k.t {
			p = append(p, leanType(c))
		}
		return "(" + strings.Join(p, " × ") + ")"
	}
	return "Unit"
}

// ---------------------------------------------------------------- values and environments

type val struct {
	lean   string
	kd     kind
	path   string         // identity of a pointer-valued place, for nil knowledge
	fields map[string]val // the variable bound by a type switch case: its fields
	over   map[string]val // fields of a local struct that were assigned after it was created
}

func (v val) withOver(f string, x val) val {
	n := v
	n.over = map[string]val{}
	for k, o := range v.over {
		n.over[k] = o
	}
	n.over[f] = x
	return n
}

// materialise: a struct value with assigned fields as one Lean term (a let-bound struct update)
func materialise(v val, en env, pos token.Pos) val {
	if len(v.over) == 0 {
		return v
	}
	if v.kd.k != "ptr" {
		fail(pos, "field assignment to a value of kind %s", v.kd)
	}
	base := v.lean
	if !v.kd.nn {
		b, ok := en.bound[v.path]
		if !ok {
			fail(pos, "field assignment through a pointer that may be nil (%s)", v.path)
		}
		base = b
	}
	var keys []string
	for k := range v.over {
		keys = append(keys, k)
	}
	sort.Strings(keys)
	var parts []string
	for _, k := range keys {
		f := fieldOf(v.kd.s, k, pos)
		parts = append(parts, f.lean+" := "+v.over[k].lean)
	}
	n := fresh("upd")
	pendingLets = append(pendingLets, fmt.Sprintf("let %s : %s := { %s with %s }", n, leanStruct[v.kd.s], base, strings.Join(parts, ", ")))
	if v.kd.nn {
		return val{lean: n, kd: v.kd, path: v.path}
	}
	p := fresh("path")
	en.bound[p] = n
	return val{lean: "(some " + n + ")", kd: v.kd, path: p}
}

// oneofs: the protobuf oneofs the translated code switches on: kind name -> case type -> (Lean constructor, fields)
type oneofCase struct {
	goType, ctor string
	fields       []field
}

var oneofs = map[string][]oneofCase{
	"FlushNI": {{"*spb.FlushRequest_All", "FlushNI.All", nil}, {"*spb.FlushRequest_Name", "FlushNI.Name", []field{{"Name", "Name", kStr}}}},
	"GetNI":   {{"*spb.GetRequest_All", "GetNI.All", nil}, {"*spb.GetRequest_Name", "GetNI.Name", []field{{"Name", "Name", kStr}}}},
	"ReconEntryX": {
		{"*spb.AFTOperation_Ipv4", "ReconEntryX.Ipv4", []field{{"Ipv4", "Ipv4", kPtr("ConvTok")}}},
		{"*spb.AFTOperation_Ipv6", "ReconEntryX.Ipv6", []field{{"Ipv6", "Ipv6", kPtr("ConvTok")}}},
		{"*spb.AFTOperation_Mpls", "ReconEntryX.Mpls", []field{{"Mpls", "Mpls", kPtr("ConvTok")}}},
		{"*spb.AFTOperation_NextHopGroup", "ReconEntryX.NextHopGroup", []field{{"NextHopGroup", "NextHopGroup", kPtr("ConvTok")}}},
		{"*spb.AFTOperation_NextHop", "ReconEntryX.NextHop", []field{{"NextHop", "NextHop", kPtr("ConvTok")}}},
	},
	"LabelU": {{"*aftpb.Afts_LabelEntryKey_LabelUint64", "LabelU.U64", []field{{"LabelUint64", "LabelUint64", kNat}}}},
	"FlushElec": {{"*spb.FlushRequest_Id", "FlushElec.Id", []field{{"Id", "Id", kPtr("Uint128")}}}, {"*spb.FlushRequest_Override", "FlushElec.Override", nil}},
	// the entry oneof of spb.AFTOperation and of spb.AFTEntry as the fluent builders fill it
	"EntryB": {
		{"*spb.AFTOperation_Ipv4", "EntryB.Ipv4", []field{{"Ipv4", "Ipv4", kPtr("Ipv4KeyB")}}},
		{"*spb.AFTOperation_Ipv6", "EntryB.Ipv6", []field{{"Ipv6", "Ipv6", kPtr("Ipv6KeyB")}}},
		{"*spb.AFTOperation_Mpls", "EntryB.Mpls", []field{{"Mpls", "Mpls", kPtr("LabelKeyB")}}},
		{"*spb.AFTOperation_NextHopGroup", "EntryB.NextHopGroup", []field{{"NextHopGroup", "NextHopGroup", kPtr("NhgKeyB")}}},
		{"*spb.AFTOperation_NextHop", "EntryB.NextHop", []field{{"NextHop", "NextHop", kPtr("NhKeyB")}}},
		{"*spb.AFTEntry_NextHop", "EntryB.NextHop", []field{{"NextHop", "NextHop", kPtr("NhKeyB")}}},
		{"*spb.AFTEntry_Ipv4", "EntryB.Ipv4", []field{{"Ipv4", "Ipv4", kPtr("Ipv4KeyB")}}},
		{"*spb.AFTEntry_Ipv6", "EntryB.Ipv6", []field{{"Ipv6", "Ipv6", kPtr("Ipv6KeyB")}}},
		{"*spb.AFTEntry_Mpls", "EntryB.Mpls", []field{{"Mpls", "Mpls", kPtr("LabelKeyB")}}},
		{"*spb.AFTEntry_NextHopGroup", "EntryB.NextHopGroup", []field{{"NextHopGroup", "NextHopGroup", kPtr("NhgKeyB")}}},
	},
	"GEntryKind": {
		{"*spb.AFTEntry_NextHopGroup", "GEntryKind.NextHopGroup", []field{{"NextHopGroup", "NextHopGroup", kPtr("GId")}}},
		{"*spb.AFTEntry_NextHop", "GEntryKind.NextHop", []field{{"NextHop", "NextHop", kPtr("GIndex")}}},
		{"*spb.AFTEntry_Ipv4", "GEntryKind.Ipv4", []field{{"Ipv4", "Ipv4", kPtr("GPrefix")}}},
		{"*spb.AFTEntry_Ipv6", "GEntryKind.Ipv6", []field{{"Ipv6", "Ipv6", kPtr("GPrefix")}}},
		{"*spb.AFTEntry_Mpls", "GEntryKind.Mpls", []field{{"Mpls", "Mpls", kPtr("GLabel")}}},
	},
	"AFTEntry": {
		{"*spb.AFTOperation_Ipv4", "AFTEntry.Ipv4", []field{{"Ipv4", "Ipv4", kPtr("IPv4EntryC")}}},
		{"*spb.AFTOperation_Ipv6", "AFTEntry.Ipv6", []field{{"Ipv6", "Ipv6", kPtr("IPv6EntryC")}}},
		{"*spb.AFTOperation_Mpls", "AFTEntry.Mpls", []field{{"Mpls", "Mpls", kPtr("LabelEntryC")}}},
		{"*spb.AFTOperation_NextHopGroup", "AFTEntry.NextHopGroup", []field{{"NextHopGroup", "NextHopGroup", kPtr("NHGEntryC")}}},
		{"*spb.AFTOperation_NextHop", "AFTEntry.NextHop", []field{{"NextHop", "NextHop", kPtr("NHEntryC")}}},
	},
}

type env struct {
	vars    map[string]val
	bound   map[string]string // path -> Lean name of the value the pointer points to
	isNil   map[string]bool
	effects []string
	// effBase: a Lean variable holding the effects recorded before (inside a loop); "" = none
	effBase string
	scopes  []map[string]*val // names declared in each open block with the binding they shadow
	// local function literals bound to a name (called only as `return f(args)`, translated inline)
	closures map[string]*ast.FuncLit
	// mutexes locked on this path and not released by a deferred unlock: a return while one is held
	// fails the translation (the generated definitions do not model locks; a leak must not pass)
	locks map[string]bool
	// mutexes held at this point (a deferred unlock does not release them before the function ends)
	held map[string]bool
}

func (e env) clone() env {
	n := env{vars: map[string]val{}, bound: map[string]string{}, isNil: map[string]bool{}}
	for k, v := range e.vars {
		n.vars[k] = v
	}
	for k, v := range e.bound {
		n.bound[k] = v
	}
	for k, v := range e.isNil {
		n.isNil[k] = v
	}
	n.effects = append([]string{}, e.effects...)
	n.effBase = e.effBase
	n.closures = map[string]*ast.FuncLit{}
	for k, v := range e.closures {
		n.closures[k] = v
	}
	n.locks = map[string]bool{}
	for k, v := range e.locks {
		n.locks[k] = v
	}
	n.held = map[string]bool{}
	for k, v := range e.held {
		n.held[k] = v
	}
	for _, s := range e.scopes {
		c := map[string]*val{}
		for k, v := range s {
			c[k] = v
		}
		n.scopes = append(n.scopes, c)
	}
	return n
}

func (e env) push() env {
	n := e.clone()
	n.scopes = append(n.scopes, map[string]*val{})
	return n
}

func (e env) pop() env {
	n := e.clone()
	top := n.scopes[len(n.scopes)-1]
	n.scopes = n.scopes[:len(n.scopes)-1]
	for name, old := range top {
		if old == nil {
			delete(n.vars, name)
		} else {
			n.vars[name] = *old
		}
	}
	return n
}

func (e *env) declare(name string, v val) {
	if len(e.scopes) > 0 {
		top := e.scopes[len(e.scopes)-1]
		if _, seen := top[name]; !seen {
			if old, ok := e.vars[name]; ok {
				o := old
				top[name] = &o
			} else {
				top[name] = nil
			}
		}
	}
	e.vars[name] = v
}

// ---------------------------------------------------------------- translator state

type terr struct{ msg string }

func fail(pos token.Pos, format string, a ...interface{}) {
	panic(terr{fmt.Sprintf("line %d: ", fset.Position(pos).Line) + fmt.Sprintf(format, a...)})
}

var failed = map[string]bool{}

// constructor names of the prelude's enumerations: anything else fails the translation of the
// function that names it (instead of producing a file that does not compile)
var knownCtors = map[string]bool{}

func init() {
	for _, c := range strings.Fields("OK Canceled Unknown InvalidArgument DeadlineExceeded NotFound AlreadyExists PermissionDenied ResourceExhausted FailedPrecondition Aborted OutOfRange Unimplemented Internal Unavailable DataLoss Unauthenticated") {
		knownCtors["GCode."+c] = true
	}
	for _, c := range strings.Fields("UNKNOWN UNSUPPORTED_PARAMS MODIFY_NOT_ALLOWED PARAMS_DIFFER_FROM_OTHER_CLIENTS ELECTION_ID_IN_ALL_PRIMARY") {
		knownCtors["MReason."+c] = true
	}
	for _, c := range strings.Fields("UNKNOWN NO_SUCH_NETWORK_INSTANCE NOT_PRIMARY ELECTION_ID_IN_ALL_PRIMARY UNSPECIFIED_ELECTION_BEHAVIOR INVALID_ELECTION_ID UNSPECIFIED_NETWORK_INSTANCE INVALID_NETWORK_INSTANCE") {
		knownCtors["FReason."+c] = true
	}
	for _, c := range strings.Fields("UNSET OK FAILED RIB_PROGRAMMED FIB_PROGRAMMED FIB_FAILED") {
		knownCtors["AftSt."+c] = true
	}
	for _, c := range strings.Fields("UNSET OK NON_ZERO_REFERENCE_REMAIN") {
		knownCtors["FlushResult."+c] = true
	}
	for _, c := range strings.Fields("EncapType_IPV4 EncapType_MPLS EncapType_UDPV6 AFTType_INVALID AFTType_ALL AFTType_IPV4 AFTType_IPV6 AFTType_MPLS AFTType_NEXTHOP AFTType_NEXTHOP_GROUP AFTType_MAC AFTType_POLICY_FORWARDING") {
		knownCtors[c] = true
	}
	knownCtors["SessionParametersResult_OK"] = true
	for _, c := range strings.Fields("AFTResult_UNSET AFTResult_FAILED AFTResult_RIB_PROGRAMMED AFTResult_FIB_PROGRAMMED AFTResult_FIB_FAILED") {
		knownCtors[c] = true
	}
	for _, c := range strings.Fields("AFTOperation_INVALID AFTOperation_ADD AFTOperation_REPLACE AFTOperation_DELETE") {
		knownCtors[c] = true
	}
	for _, c := range strings.Fields("SessionParameters_ALL_PRIMARY SessionParameters_SINGLE_PRIMARY SessionParameters_DELETE SessionParameters_PRESERVE SessionParameters_RIB_ACK SessionParameters_RIB_AND_FIB_ACK") {
		knownCtors[c] = true
	}
}

func knownCtor(pos token.Pos, name string) string {
	if !knownCtors[name] {
		fail(pos, "%s is not a constant the translator knows", name)
	}
	return name
}

var (
	fset    = token.NewFileSet()
	counter int
	cur     *fnSpec
	// lets that an expression needs emitted before the statement using it
	pendingLets []string
)

func fresh(base string) string {
	counter++
	return fmt.Sprintf("%s_%d", base, counter)
}

func leanStr(s string) string { return strconv.Quote(s) }

func render(e ast.Expr) string {
	switch v := e.(type) {
	case *ast.Ident:
		return v.Name
	case *ast.SelectorExpr:
		return render(v.X) + "." + v.Sel.Name
	case *ast.ParenExpr:
		return render(v.X)
	case *ast.StarExpr:
		return "*" + render(v.X)
	case *ast.CallExpr:
		return render(v.Fun) + "()"
	case *ast.UnaryExpr:
		return v.Op.String() + render(v.X)
	case *ast.BasicLit:
		return v.Value
	case *ast.CompositeLit:
		if v.Type == nil {
			return "{}"
		}
		return render(v.Type) + "{}"
	case *ast.IndexExpr:
		return render(v.X) + "[" + render(v.Index) + "]"
	case *ast.ArrayType:
		return "[]" + render(v.Elt)
	case *ast.ChanType:
		return "chan " + render(v.Value)
	case *ast.MapType:
		return "map[" + render(v.Key) + "]" + render(v.Value)
	case *ast.StructType:
		return "struct{}"
	case *ast.Ellipsis:
		return "..." + render(v.Elt)
	case *ast.TypeAssertExpr:
		if v.Type == nil {
			return render(v.X) + ".(type)"
		}
		return render(v.X) + ".(" + render(v.Type) + ")"
	}
	return fmt.Sprintf("<%T>", e)
}

func fieldOf(structName, goField string, pos token.Pos) field {
	for _, f := range schemas[structName] {
		if f.goName == goField {
			return f
		}
	}
	fail(pos, "unknown field %s of %s", goField, structName)
	return field{}
}

// selectField translates X.F (or X.GetF()) given X's value.
func selectField(x val, goField string, en env, pos token.Pos) val {
	if x.fields != nil {
		if f, ok := x.fields[goField]; ok {
			return f
		}
		fail(pos, "unknown field %s of a oneof case", goField)
	}
	switch x.kd.k {
	case "ptr":
		if x.kd.nn {
			f := fieldOf(x.kd.s, goField, pos)
			return val{lean: atom(x.lean) + "." + f.lean, kd: f.kd, path: x.path + "." + goField}
		}
		b, ok := en.bound[x.path]
		if !ok {
			fail(pos, "possible nil dereference of %s (field %s)", x.path, goField)
		}
		f := fieldOf(x.kd.s, goField, pos)
		return val{lean: b + "." + f.lean, kd: f.kd, path: x.path + "." + goField}
	case "struct":
		f := fieldOf(x.kd.s, goField, pos)
		return val{lean: "(" + x.lean + ")." + f.lean, kd: f.kd, path: x.path + "." + goField}
	}
	fail(pos, "selection of %s from a value of kind %s", goField, x.kd)
	return val{}
}

// ---------------------------------------------------------------- local procedures, occurrences

// substOcc numbers, in source order, the occurrences of the expressions that the current spec
// substitutes per occurrence (keys "expr#1", "expr#2", …): a table that is read again after the
// function has changed it is a different oracle at each place it is read.
var substOcc map[ast.Expr]int

// selectOcc numbers the select statements of the function in source order (the spec names the
// oracle that decides each: `selects`); returnHook, when set, receives the return statements of a
// local function that is being translated inline where its result is tested.
var selectOcc map[*ast.SelectStmt]int

// selectorParent: the selector expressions that are the operand of another selector (x.f in x.f.g)
var selectorParent map[ast.Expr]bool
var returnHook func(r *ast.ReturnStmt, en env) string

// oracleApp: "§name@x,y" applied to the local variables x, y (or "§name" alone)
func oracleApp(spec string, en env, pos token.Pos) val {
	i := strings.Index(spec, "@")
	if i < 0 {
		v, ok := en.vars[spec]
		if !ok {
			fail(pos, "unknown oracle %s", spec)
		}
		return v
	}
	f, ok := en.vars[spec[:i]]
	if !ok {
		fail(pos, "unknown oracle %s", spec[:i])
	}
	app := f.lean
	for _, a := range strings.Split(spec[i+1:], ",") {
		x, ok := en.vars[a]
		if !ok {
			fail(pos, "oracle %s: unknown variable %s", spec, a)
		}
		app += " " + atom(materialise(x, en, pos).lean)
	}
	return val{lean: "(" + app + ")", kd: f.kd.t[0], path: fresh("path")}
}

// trSelect: a select statement is a choice the function does not control; which way it goes is an
// oracle named by the spec (a function of the local variables that identify the iteration).
//   select { case <-c: A  default: B }          oracle true = the receive is ready (A)
//   select { case ch <- v: A  case <-c: B }     oracle true = the value is sent (recorded as the
//                                               effect the spec gives for ch), then A; false = B
func trSelect(v *ast.SelectStmt, en env, next cont) string {
	n := selectOcc[v]
	spec, ok := cur.selects[n]
	if !ok || len(v.Body.List) != 2 {
		fail(v.Pos(), "select statement %d", n)
	}
	c0, c1 := v.Body.List[0].(*ast.CommClause), v.Body.List[1].(*ast.CommClause)
	isRecv := func(c *ast.CommClause) bool {
		es, ok := c.Comm.(*ast.ExprStmt)
		if !ok {
			return false
		}
		u, ok := es.X.(*ast.UnaryExpr)
		return ok && u.Op == token.ARROW
	}
	orc := oracleApp(spec, en, v.Pos())
	if orc.kd.k != "bool" {
		fail(v.Pos(), "select oracle of kind %s", orc.kd)
	}
	body := func(c *ast.CommClause, e env) string {
		return trStmts(c.Body, e.push(), func(e2 env) string { return next(e2.pop()) })
	}
	switch {
	case isRecv(c0) && c1.Comm == nil:
		return fmt.Sprintf("(if %s = true then %s\nelse %s)", atom(orc.lean), body(c0, en), body(c1, en))
	case isRecv(c1):
		snd, ok := c0.Comm.(*ast.SendStmt)
		if !ok {
			fail(v.Pos(), "select statement %d: first case is not a send", n)
		}
		ctor, ok := cur.chanSends[render(snd.Chan)]
		if !ok {
			fail(snd.Pos(), "send on %s", render(snd.Chan))
		}
		requireHeld(snd.Pos(), en, "send on "+render(snd.Chan))
		x := trExpr(snd.Value, en)
		e1 := absorb(en).clone()
		e1.effects = append(e1.effects, "(Eff."+ctor+" "+atom(x.lean)+")")
		lets := takeLets()
		return wrapLets(lets, fmt.Sprintf("(if %s = true then %s\nelse %s)", atom(orc.lean), body(c0, e1), body(c1, absorb(en))))
	}
	fail(v.Pos(), "select statement %d: unsupported shape", n)
	return ""
}

func numberOccurrences(body *ast.BlockStmt, subst map[string]string) map[ast.Expr]int {
	bases := map[string]bool{}
	for k := range subst {
		if i := strings.Index(k, "#"); i >= 0 {
			bases[k[:i]] = true
		}
	}
	occ := map[ast.Expr]int{}
	if len(bases) == 0 {
		return occ
	}
	count := map[string]int{}
	ast.Inspect(body, func(n ast.Node) bool {
		if e, ok := n.(ast.Expr); ok {
			if r := render(e); bases[r] {
				if _, seen := occ[e]; !seen {
					count[r]++
					occ[e] = count[r]
				}
				return false
			}
		}
		return true
	})
	return occ
}

// expandClosures replaces, in a function body, every statement `f(args)` that calls a local
// procedure `f := func(params) { body }` (a function literal without results and without a return
// statement, bound once to a new name) by the block `{ p1 := a1; …; body }`, and removes the
// binding. Go evaluates the arguments before the body and the literal captures the enclosing
// variables by reference, which is what the block does. Anything else done with `f` (passing it
// on, calling it in an expression, rebinding it) is left in place and fails the translation later.
func expandClosures(body *ast.BlockStmt) {
	procs := map[string]*ast.FuncLit{}
	ast.Inspect(body, func(n ast.Node) bool {
		a, ok := n.(*ast.AssignStmt)
		if !ok || a.Tok != token.DEFINE || len(a.Lhs) != 1 || len(a.Rhs) != 1 {
			return true
		}
		fl, ok := a.Rhs[0].(*ast.FuncLit)
		id, ok2 := a.Lhs[0].(*ast.Ident)
		if !ok || !ok2 || fl.Type.Results != nil {
			return true
		}
		hasReturn := false
		ast.Inspect(fl.Body, func(m ast.Node) bool {
			if _, ok := m.(*ast.ReturnStmt); ok {
				hasReturn = true
			}
			return true
		})
		if !hasReturn {
			procs[id.Name] = fl
		}
		return true
	})
	if len(procs) == 0 {
		return
	}
	var rewrite func(list []ast.Stmt) []ast.Stmt
	rewrite = func(list []ast.Stmt) []ast.Stmt {
		var out []ast.Stmt
		for _, st := range list {
			switch v := st.(type) {
			case *ast.AssignStmt:
				if v.Tok == token.DEFINE && len(v.Lhs) == 1 && len(v.Rhs) == 1 {
					if id, ok := v.Lhs[0].(*ast.Ident); ok {
						if fl, ok := v.Rhs[0].(*ast.FuncLit); ok && procs[id.Name] == fl {
							continue
						}
					}
				}
			case *ast.ExprStmt:
				if c, ok := v.X.(*ast.CallExpr); ok {
					if id, ok := c.Fun.(*ast.Ident); ok {
						if fl, ok := procs[id.Name]; ok {
							var names []*ast.Ident
							for _, p := range fl.Type.Params.List {
								names = append(names, p.Names...)
							}
							if len(names) == len(c.Args) {
								blk := &ast.BlockStmt{Lbrace: c.Pos(), Rbrace: c.End()}
								for i, a := range c.Args {
									blk.List = append(blk.List, &ast.AssignStmt{Lhs: []ast.Expr{ast.NewIdent(names[i].Name)}, TokPos: c.Pos(), Tok: token.DEFINE, Rhs: []ast.Expr{a}})
								}
								blk.List = append(blk.List, fl.Body.List...)
								out = append(out, blk)
								continue
							}
						}
					}
				}
			case *ast.BlockStmt:
				v.List = rewrite(v.List)
			case *ast.IfStmt:
				v.Body.List = rewrite(v.Body.List)
				if eb, ok := v.Else.(*ast.BlockStmt); ok {
					eb.List = rewrite(eb.List)
				} else if ei, ok := v.Else.(*ast.IfStmt); ok {
					rewrite([]ast.Stmt{ei})
				}
			case *ast.ForStmt:
				v.Body.List = rewrite(v.Body.List)
			case *ast.RangeStmt:
				v.Body.List = rewrite(v.Body.List)
			case *ast.SwitchStmt:
				for _, c := range v.Body.List {
					cc := c.(*ast.CaseClause)
					cc.Body = rewrite(cc.Body)
				}
			case *ast.TypeSwitchStmt:
				for _, c := range v.Body.List {
					cc := c.(*ast.CaseClause)
					cc.Body = rewrite(cc.Body)
				}
			}
			out = append(out, st)
		}
		return out
	}
	body.List = rewrite(body.List)
}

func trExpr(e ast.Expr, en env) val {
	if cur != nil {
		key := render(e)
		if n := substOcc[e]; n > 0 {
			key += "#" + strconv.Itoa(n)
		}
		if s, ok := cur.subst[key]; ok {
			if !cur.unguarded[render(e)] {
				requireHeld(e.Pos(), en, "read of "+key)
			}
			if i := strings.Index(s, "@"); i >= 0 {
				// the substituted value depends on local variables: the oracle parameter is a function
				f := en.vars[s[:i]]
				app := f.lean
				for _, a := range strings.Split(s[i+1:], ",") {
					x, ok := en.vars[a]
					if !ok {
						fail(e.Pos(), "substitution %s: unknown variable %s", s, a)
					}
					app += " " + atom(x.lean)
				}
				return val{lean: "(" + app + ")", kd: f.kd.t[0], path: fresh("path")}
			}
			return en.vars[s]
		}
	}
	switch v := e.(type) {
	case *ast.TypeAssertExpr:
		if cur != nil && cur.builder && v.Type != nil {
			if c, ok := v.X.(*ast.CallExpr); ok && render(c.Fun) == "proto.Clone" && len(c.Args) == 1 && cur.isState(render(c.Args[0])) {
				// proto.Clone(i.pb).(*T): a copy of the builder's protobuf as it is now (what is
				// handed out does not change with later calls on the builder)
				x := en.vars[render(c.Args[0])]
				if x.kd.k != "ptr" || !x.kd.nn {
					fail(v.Pos(), "copy of %s of kind %s", render(c.Args[0]), x.kd)
				}
				np := fresh("path")
				en.bound[np] = atom(x.lean)
				return val{lean: "(some " + atom(x.lean) + ")", kd: kPtr(x.kd.s), path: np}
			}
		}
		if cur != nil && cur.statusViews && v.Type != nil {
			if c, ok := v.X.(*ast.CallExpr); ok && render(c.Fun) == "proto.Clone" && len(c.Args) == 1 {
				// proto.Clone(p).(*T): a copy of p
				return copyOf(trExpr(c.Args[0], en), en, v.Pos())
			}
		}
	case *ast.ParenExpr:
		return trExpr(v.X, en)
	case *ast.Ident:
		switch v.Name {
		case "nil":
			return val{lean: "none", kd: kind{k: "nilptr"}, path: "nil"}
		case "true", "false":
			return val{lean: v.Name, kd: kBool}
		}
		if x, ok := en.vars[v.Name]; ok {
			return materialise(x, en, v.Pos())
		}
		if cur != nil {
			if c, ok := cur.consts[v.Name]; ok {
				return val{lean: c, kd: kEnum}
			}
		}
		fail(v.Pos(), "unknown identifier %s", v.Name)
	case *ast.BasicLit:
		switch v.Kind {
		case token.INT:
			return val{lean: v.Value, kd: kInt}
		case token.STRING:
			s, err := strconv.Unquote(v.Value)
			if err != nil {
				fail(v.Pos(), "string literal %s", v.Value)
			}
			return val{lean: leanStr(s), kd: kStr}
		}
		fail(v.Pos(), "literal %s", v.Value)
	case *ast.SelectorExpr:
		r := render(v)
		if x, ok := en.vars[r]; ok { // state field such as s.curElecID
			if cur != nil && cur.isState(r) {
				requireHeld(v.Pos(), en, "read of "+r)
				if cur.builder && !cur.mayHandOut && x.kd.k == "ptr" && x.kd.nn && !selectorParent[v] {
					// the builder's own protobuf handed out as it is: later calls on the builder
					// would change what was handed out
					fail(v.Pos(), "%s is handed out without a copy (proto.Clone)", r)
				}
			}
			return x
		}
		if cur != nil && cur.statusViews {
			if n, ok := grpcCodes[r]; ok {
				return val{lean: n, kd: kNat}
			}
		}
		if r == "math.MaxUint32" {
			return val{lean: "4294967295", kd: kInt}
		}
		if id, ok := v.X.(*ast.Ident); ok && id.Name == "constants" && cur != nil {
			if _, ok := cur.extConsts[r]; ok {
				return val{lean: "constants_" + v.Sel.Name, kd: kEnum}
			}
			fail(v.Pos(), "constant %s is not declared in the function's specification", r)
		}
		if id, ok := v.X.(*ast.Ident); ok && id.Name == "spb" {
			for _, p := range []string{"SessionParameters_", "SessionParametersResult_", "AFTOperation_", "AFTType_", "AFTResult_"} {
				if strings.HasPrefix(v.Sel.Name, p) {
					return val{lean: knownCtor(v.Pos(), v.Sel.Name), kd: kEnum}
				}
			}
			fail(v.Pos(), "enumeration constant %s is not in the translator's table", r)
		}
		if id, ok := v.X.(*ast.Ident); ok {
			if x, ok := en.vars[id.Name]; ok {
				if o, ok := x.over[v.Sel.Name]; ok {
					return o
				}
				if len(x.over) > 0 {
					x.over = nil
					return selectField(x, v.Sel.Name, en, v.Pos())
				}
			}
		}
		return selectField(trExpr(v.X, en), v.Sel.Name, en, v.Pos())
	case *ast.UnaryExpr:
		if v.Op == token.NOT {
			return val{lean: "(!" + trBool(v.X, en) + ")", kd: kBool}
		}
		if v.Op == token.AND {
			if cl, ok := v.X.(*ast.CompositeLit); ok {
				if render(cl.Type) == "spb.AFTResult" {
					return trAFTResult(cl, en)
				}
				if oc, on := oneofMember("*" + render(cl.Type)); oc != nil {
					// &spb.AFTEntry_Ipv4{Ipv4: p}: a member of a protobuf oneof
					given := map[string]string{}
					for _, el := range cl.Elts {
						kv, ok := el.(*ast.KeyValueExpr)
						if !ok {
							fail(el.Pos(), "positional composite literal")
						}
						isField := false
						for _, f := range oc.fields {
							if f.goName == render(kv.Key) {
								isField = true
							}
						}
						if !isField {
							// a member that carries only the empty message (All, Override)
							if render(kv.Value) != "&spb.Empty{}" {
								fail(kv.Pos(), "member %s of a oneof case without fields given %s", render(kv.Key), render(kv.Value))
							}
							continue
						}
						given[render(kv.Key)] = atom(trExpr(kv.Value, en).lean)
					}
					app := oc.ctor
					for _, f := range oc.fields {
						g, ok := given[f.goName]
						if !ok {
							g = zeroOf(f.kd)
						}
						app += " " + g
					}
					return val{lean: "(some (" + app + "))", kd: kind{k: "oneof", s: on}, path: fresh("path")}
				}
				return trComposite(cl, en)
			}
		}
		fail(v.Pos(), "unary %s", v.Op)
	case *ast.CompositeLit:
		if at, ok := v.Type.(*ast.ArrayType); ok && render(at.Elt) == "*spb.AFTResult" {
			var els []string
			for _, el := range v.Elts {
				cl, ok := el.(*ast.CompositeLit)
				if !ok {
					if u, ok2 := el.(*ast.UnaryExpr); ok2 && u.Op == token.AND {
						cl, ok = u.X.(*ast.CompositeLit)
					}
				}
				if !ok {
					fail(el.Pos(), "element of an AFTResult list")
				}
				els = append(els, trAFTResult(cl, en).lean)
			}
			return val{lean: "[" + strings.Join(els, ", ") + "]", kd: kind{k: "list", s: "AFTResult"}}
		}
		if at, ok := v.Type.(*ast.ArrayType); ok && render(at.Elt) == "cmp.Option" {
			// []cmp.Option{cmpopts.IgnoreFields(T{}, fields...), protocmp.Transform()}: represented by the
			// list of ignored field names (the only part of it a translated decision builds)
			if len(v.Elts) != 2 || render(v.Elts[1]) != "protocmp.Transform()" {
				fail(v.Pos(), "cmp option list other than {IgnoreFields(..), protocmp.Transform()}")
			}
			return trExpr(v.Elts[0], en)
		}
		if at, ok := v.Type.(*ast.ArrayType); ok && len(v.Elts) > 0 {
			if st, ok := at.Elt.(*ast.StarExpr); ok {
				name := render(st.X)
				if cur != nil {
					if a, ok := cur.typeMap[name]; ok {
						name = a
					}
				}
				if _, ok := schemas[name]; ok {
					var els []string
					for _, el := range v.Elts {
						x := trExpr(el, en)
						if x.kd.k != "ptr" || x.kd.s != name {
							fail(el.Pos(), "element of kind %s in a slice of *%s", x.kd, name)
						}
						if x.kd.nn {
							els = append(els, "(some "+atom(x.lean)+")")
						} else {
							els = append(els, x.lean)
						}
					}
					return val{lean: "[" + strings.Join(els, ", ") + "]", kd: kind{k: "list", s: name, optElems: true}}
				}
			}
		}
		if at, ok := v.Type.(*ast.ArrayType); ok && len(v.Elts) > 0 {
			if st, ok := at.Elt.(*ast.StarExpr); ok {
				name := strings.TrimPrefix(render(st.X), "spb.")
				if cur != nil {
					if a, ok := cur.typeMap[name]; ok {
						name = a
					}
				}
				if _, ok := schemas[name]; ok {
					// []*T{{…}, &T{…}}: a slice of pointers to new structs (element types may be elided)
					var els []string
					for _, el := range v.Elts {
						cl, ok := el.(*ast.CompositeLit)
						if u, isU := el.(*ast.UnaryExpr); isU && u.Op == token.AND {
							cl, ok = u.X.(*ast.CompositeLit)
						}
						if !ok || (cl.Type != nil && render(cl.Type) != render(st.X)) {
							fail(el.Pos(), "element of a slice literal of %s", name)
						}
						c2 := *cl
						c2.Type = st.X
						x := trComposite(&c2, en)
						els = append(els, en.bound[x.path])
					}
					return val{lean: "[" + strings.Join(els, ", ") + "]", kd: kind{k: "list", s: name, elemNN: true}}
				}
			}
		}
		if at, ok := v.Type.(*ast.ArrayType); ok && len(v.Elts) == 0 {
			if st, ok := at.Elt.(*ast.StarExpr); ok {
				name := render(st.X)
				if cur != nil {
					if a, ok := cur.typeMap[name]; ok {
						name = a
					}
				}
				if _, ok := schemas[name]; ok {
					// an empty slice of pointers to a known struct (non-nil elements are appended)
					return val{lean: "[]", kd: kind{k: "list", s: name, elemNN: true}}
				}
			}
		}
		if mt, ok := v.Type.(*ast.MapType); ok && len(v.Elts) == 0 {
			if st, ok := mt.Value.(*ast.StarExpr); ok {
				name := render(st.X)
				if cur != nil {
					if a, ok := cur.typeMap[name]; ok {
						name = a
					}
				}
				if _, ok := schemas[name]; ok {
					kk := kNat
					if render(mt.Key) == "string" {
						kk = kStr
					}
					// a local map of pointers: the model's association-list Map, empty
					return val{lean: "[]", kd: kind{k: "map", s: name, t: []kind{kk}}}
				}
			}
		}
		if mt, ok := v.Type.(*ast.MapType); ok && render(mt.Value) == "bool" {
			// map[K]bool used as a set of enumeration values / numbers / strings (every value true)
			sk := kind{k: "set"}
			if render(mt.Key) == "string" {
				sk.s = "String"
			}
			var els []string
			for _, el := range v.Elts {
				kv, ok := el.(*ast.KeyValueExpr)
				if !ok || render(kv.Value) != "true" {
					fail(el.Pos(), "element of a set literal")
				}
				els = append(els, trExpr(kv.Key, en).lean)
			}
			return val{lean: "[" + strings.Join(els, ", ") + "]", kd: sk}
		}
		if at, ok := v.Type.(*ast.ArrayType); ok && len(v.Elts) == 0 && cur != nil && cur.natListTypes[render(at.Elt)] {
			// a slice of option values that the spec represents by numbers
			return val{lean: "[]", kd: kind{k: "list", s: "Nat", elemNN: true}}
		}
		if at, ok := v.Type.(*ast.ArrayType); ok && len(v.Elts) == 0 && render(at.Elt) == "uint64" {
			return val{lean: "[]", kd: kind{k: "list", s: "Nat", elemNN: true}}
		}
		if at, ok := v.Type.(*ast.ArrayType); ok && len(v.Elts) == 0 && render(at.Elt) == "error" {
			// a slice of errors: non-nil errors are appended
			return val{lean: "[]", kd: kind{k: "list", s: "Status", elemNN: true}}
		}
		if at, ok := v.Type.(*ast.ArrayType); ok && render(at.Elt) == "string" {
			var els []string
			for _, el := range v.Elts {
				x := trExpr(el, en)
				if x.kd.k != "str" {
					fail(el.Pos(), "element of a string list of kind %s", x.kd)
				}
				els = append(els, x.lean)
			}
			return val{lean: "[" + strings.Join(els, ", ") + "]", kd: kind{k: "list", s: "String"}}
		}
		fail(v.Pos(), "composite literal %s", render(v))
	case *ast.BinaryExpr:
		switch v.Op {
		case token.EQL, token.NEQ, token.LSS, token.LEQ, token.GTR, token.GEQ, token.LAND, token.LOR:
			return val{lean: trBool(v, en), kd: kBool}
		case token.ADD:
			a, b := trExpr(v.X, en), trExpr(v.Y, en)
			if a.kd.k == "nat" && (b.kd.k == "nat" || b.kd.k == "int") {
				return val{lean: "(" + a.lean + " + " + b.lean + ")", kd: kNat}
			}
			if a.kd.k == "int" && b.kd.k == "int" {
				return val{lean: "(" + a.lean + " + " + b.lean + ")", kd: kInt}
			}
			if a.kd.k == "int" && b.kd.k == "nat" {
				// a count (a Go int that only ever counts up from 0) plus a length
				return val{lean: "(" + a.lean + " + " + b.lean + ")", kd: kNat}
			}
		case token.SUB:
			a, b := trExpr(v.X, en), trExpr(v.Y, en)
			if a.kd.k == "int" && b.kd.k == "int" {
				return val{lean: "(" + a.lean + " - " + b.lean + ")", kd: kInt}
			}
		}
		fail(v.Pos(), "binary %s", v.Op)
	case *ast.StarExpr:
		if x, ok := en.vars[render(v)]; ok && cur != nil && cur.isState(render(v)) {
			return x
		}
		if x := trExpr(v.X, en); x.kd.k == "ptr" && x.kd.s == "UintBox" {
			// *p of a *uint64 field: only where p is known not to be nil
			b, ok := en.bound[x.path]
			if !ok {
				fail(v.Pos(), "possible nil dereference of %s", x.path)
			}
			return val{lean: b, kd: kNat}
		}
		fail(v.Pos(), "dereference %s", render(v))
	case *ast.IndexExpr:
		if id, ok := v.X.(*ast.Ident); ok && cur != nil {
			if fn, ok := cur.constMaps[id.Name]; ok {
				if _, shadowed := en.vars[id.Name]; shadowed {
					fail(v.Pos(), "%s names a local variable here, not the package's table", id.Name)
				}
				// a package-level table written as a map literal: the generated function of its
				// entries (a key that is not in it yields the zero value)
				k := trExpr(v.Index, en)
				if k.kd.k != "int" && k.kd.k != "nat" && k.kd.k != "enum" {
					fail(v.Pos(), "key of kind %s looked up in %s", k.kd, id.Name)
				}
				return val{lean: "(" + fn + " " + atom(k.lean) + ")", kd: kEnum}
			}
		}
		m := trExpr(v.X, en)
		if m.kd.k == "set" {
			k := trExpr(v.Index, en)
			return val{lean: "(" + atom(m.lean) + ".contains " + atom(k.lean) + ")", kd: kBool}
		}
		if m.kd.k == "list" && m.kd.keyed {
			// a ygot map represented as the list of its elements: the element with that key, if any
			k := trExpr(v.Index, en)
			kf := fieldOf(m.kd.s, "Key", v.Pos())
			return val{lean: "(" + atom(m.lean) + ".find? (fun x => decide (x." + kf.lean + " = " + atom(k.lean) + ")))", kd: kPtr(m.kd.s), path: render(v)}
		}
		if m.kd.k != "map" {
			fail(v.Pos(), "index of %s", m.kd)
		}
		if m.kd.s == "Nat" {
			// a map of counters (map[uint64]uint64): a missing key reads as 0
			k := trExpr(v.Index, en)
			return val{lean: "((Map.get? " + atom(m.lean) + " " + atom(k.lean) + ").getD 0)", kd: kNat}
		}
		k := trExpr(v.Index, en)
		mapEntryExprs[render(v)] = v
		return val{lean: "(Map.get? " + atom(m.lean) + " " + atom(k.lean) + ")", kd: kPtr(m.kd.s), path: render(v)}
	case *ast.CallExpr:
		vs := trCall(v, en)
		if len(vs) != 1 {
			fail(v.Pos(), "call %s used as a single value returns %d values", render(v.Fun), len(vs))
		}
		return vs[0]
	}
	fail(e.Pos(), "unsupported expression %s (%T)", render(e), e)
	return val{}
}

// ignoredFields: fields of a struct that no translated decision reads (the operation a result
// belongs to is identified by ID; error texts are not compared)
var ignoredFields = map[string]map[string]bool{
	"RibOpResult": {"Op": true, "Error": true},
	// the back pointer to the client that created the request builder
	"gRIBIGet": {"parent": true}, "gRIBIFlush": {"parent": true}, "gRIBIModify": {"parent": true},
}

// oneofMember: the case of a protobuf oneof whose Go wrapper type is goType, and the oneof's name
func oneofMember(goType string) (*oneofCase, string) {
	var names []string
	for n := range oneofs {
		names = append(names, n)
	}
	sort.Strings(names)
	var found *oneofCase
	foundIn := ""
	for _, n := range names {
		cs := oneofs[n]
		for i := range cs {
			if cs[i].goType == goType {
				if cur != nil && cur.oneofView != "" && n == cur.oneofView {
					return &cs[i], n
				}
				if found == nil {
					found, foundIn = &cs[i], n
				} else if cur != nil && cur.oneofView != "" {
					// listed in several tables, none of them the function's view: undecided
					found, foundIn = nil, "§ambiguous"
				}
			}
		}
	}
	if foundIn == "§ambiguous" {
		return nil, ""
	}
	if found != nil && cur != nil && cur.oneofView != "" {
		// the wrapper type is listed in one table only, or the view decides
		return found, foundIn
	}
	return found, foundIn
}

// copyOf: a new struct with the contents of x (s.Proto(), status.FromProto(p), proto.Clone(p)): a
// place of its own, so that a field assigned through the copy does not show through x
func copyOf(x val, en env, pos token.Pos) val {
	x = materialise(x, en, pos)
	if x.kd.k != "ptr" {
		fail(pos, "copy of a value of kind %s", x.kd)
	}
	np := fresh("path")
	if b, ok := en.bound[x.path]; ok {
		en.bound[np] = b
	}
	if en.isNil[x.path] {
		en.isNil[np] = true
	}
	return val{lean: x.lean, kd: x.kd, path: np}
}

// grpcCodes: the numbers of the gRPC status codes the translated code names (codes.X as a number)
var grpcCodes = map[string]string{"codes.OK": "0", "codes.Unknown": "2", "codes.InvalidArgument": "3", "codes.FailedPrecondition": "9", "codes.Unimplemented": "12", "codes.Internal": "13", "codes.Unavailable": "14"}

// trComposite: &clientParams{F: e, ...}
func trComposite(cl *ast.CompositeLit, en env) val {
	name := strings.TrimPrefix(render(cl.Type), "spb.")
	if cur != nil {
		if a, ok := cur.typeMap[name]; ok {
			name = a
		}
	}
	fs, ok := schemas[name]
	if !ok {
		fail(cl.Pos(), "composite literal of %s", name)
	}
	given := map[string]string{}
	for _, el := range cl.Elts {
		kv, ok := el.(*ast.KeyValueExpr)
		if !ok {
			fail(el.Pos(), "positional composite literal")
		}
		k := render(kv.Key)
		if ignoredFields[name][k] {
			continue
		}
		f := fieldOf(name, k, kv.Pos())
		x := trExpr(kv.Value, en)
		if f.kd.k == "ptr" && f.kd.nn {
			b, ok := en.bound[x.path]
			if !ok {
				fail(kv.Pos(), "field %s must be given a non-nil value", k)
			}
			given[f.lean] = b
			continue
		}
		given[f.lean] = x.lean
	}
	var parts []string
	for _, f := range fs {
		g, ok := given[f.lean]
		if !ok {
			g = zeroOf(f.kd)
		}
		parts = append(parts, f.lean+" := "+g)
	}
	n := fresh("lit")
	pendingLets = append(pendingLets, fmt.Sprintf("let %s : %s := { %s }", n, leanStruct[name], strings.Join(parts, ", ")))
	p := fresh("path")
	en.bound[p] = n
	return val{lean: "(some " + n + ")", kd: kPtr(name), path: p}
}

// trAFTResult: {Id: e, Status: spb.AFTResult_X, ErrorDetails: ...} as a pair
func trAFTResult(r *ast.CompositeLit, en env) val {
	id, st := "", ""
	for _, el := range r.Elts {
		f, ok := el.(*ast.KeyValueExpr)
		if !ok {
			fail(el.Pos(), "positional AFTResult literal")
		}
		switch render(f.Key) {
		case "Id":
			x := trExpr(f.Value, en)
			if x.kd.k != "nat" {
				fail(f.Pos(), "result id of kind %s", x.kd)
			}
			id = x.lean
		case "Status":
			s := render(f.Value)
			if !strings.HasPrefix(s, "spb.AFTResult_") {
				fail(f.Pos(), "result status %s", s)
			}
			st = knownCtor(f.Pos(), "AftSt."+strings.TrimPrefix(s, "spb.AFTResult_"))
		case "ErrorDetails":
		default:
			fail(f.Pos(), "AFTResult field %s", render(f.Key))
		}
	}
	if id == "" || st == "" {
		fail(r.Pos(), "AFTResult without id or status")
	}
	return val{lean: "(" + id + ", " + st + ")", kd: kind{k: "aftresult"}}
}

// trTypeSwitch: switch t := X.(type) over a protobuf oneof
func trTypeSwitch(v *ast.TypeSwitchStmt, en env, next cont) string {
	if v.Init != nil {
		fail(v.Pos(), "type switch with init")
	}
	var bindName string
	var subject ast.Expr
	switch a := v.Assign.(type) {
	case *ast.AssignStmt:
		bindName = a.Lhs[0].(*ast.Ident).Name
		subject = a.Rhs[0].(*ast.TypeAssertExpr).X
	case *ast.ExprStmt:
		subject = a.X.(*ast.TypeAssertExpr).X
	}
	x := trExpr(subject, en)
	en = absorb(en)
	if x.kd.k != "oneof" {
		fail(v.Pos(), "type switch over %s", x.kd)
	}
	lets := takeLets()
	cases := oneofs[x.kd.s]
	var arms []string
	covered := map[string]bool{}
	var dfltClause *ast.CaseClause
	for _, c := range v.Body.List {
		cc := c.(*ast.CaseClause)
		if cc.List == nil {
			dfltClause = cc
			continue
		}
		if len(cc.List) != 1 {
			fail(cc.Pos(), "type switch case with several types")
		}
		ty := render(cc.List[0])
		var oc *oneofCase
		for i := range cases {
			if cases[i].goType == ty {
				oc = &cases[i]
			}
		}
		if oc == nil {
			fail(cc.Pos(), "type %s is not a case of the oneof %s", ty, x.kd.s)
		}
		covered[ty] = true
		e1 := en.push()
		pat := oc.ctor
		fv := map[string]val{}
		for _, f := range oc.fields {
			n := fresh(lastName(f.goName))
			pat += " " + n
			fv[f.goName] = val{lean: n, kd: f.kd}
		}
		if bindName != "" {
			e1.declare(bindName, val{lean: "()", kd: kind{k: "oneofcase"}, fields: fv})
		}
		if len(oc.fields) > 0 {
			pat = "(" + pat + ")"
		}
		body := trStmts(cc.Body, e1, func(e env) string { return next(e.pop()) })
		arms = append(arms, fmt.Sprintf("| some %s => %s", pat, body))
	}
	for _, oc := range cases {
		if !covered[oc.goType] {
			pat := oc.ctor
			for range oc.fields {
				pat += " _"
			}
			if len(oc.fields) > 0 {
				pat = "(" + pat + ")"
			}
			if dfltClause != nil {
				arms = append(arms, fmt.Sprintf("| some %s => %s", pat, trStmts(dfltClause.Body, en.push(), func(e env) string { return next(e.pop()) })))
				continue
			}
			arms = append(arms, fmt.Sprintf("| some %s => %s", pat, next(en)))
		}
	}
	if dfltClause != nil {
		// the default also takes a nil interface value
		arms = append(arms, "| none => "+trStmts(dfltClause.Body, en.push(), func(e env) string { return next(e.pop()) }))
	} else {
		arms = append(arms, "| none => "+next(en))
	}
	return wrapLets(lets, "(match "+x.lean+" with\n"+strings.Join(arms, "\n")+")")
}

// localOnly: the statements only define and use variables local to the block (error-message
// formatting); they have no effect outside it
func localOnly(list []ast.Stmt, declared map[string]bool) bool {
	okCall := func(c *ast.CallExpr) bool {
		fn := render(c.Fun)
		if fn == "fmt.Sprintf" {
			return true
		}
		if sel, ok := c.Fun.(*ast.SelectorExpr); ok {
			if id, ok := sel.X.(*ast.Ident); ok && declared[id.Name] {
				return true
			}
		}
		return false
	}
	exprOK := func(e ast.Expr) bool {
		ok := true
		ast.Inspect(e, func(n ast.Node) bool {
			if c, isCall := n.(*ast.CallExpr); isCall && !okCall(c) {
				ok = false
			}
			return ok
		})
		return ok
	}
	for _, st := range list {
		switch v := st.(type) {
		case *ast.AssignStmt:
			if v.Tok != token.DEFINE {
				return false
			}
			for _, r := range v.Rhs {
				if !exprOK(r) {
					return false
				}
			}
			for _, l := range v.Lhs {
				if id, ok := l.(*ast.Ident); ok {
					declared[id.Name] = true
				}
			}
		case *ast.ExprStmt:
			c, ok := v.X.(*ast.CallExpr)
			if !ok || !okCall(c) {
				return false
			}
			for _, a := range c.Args {
				if !exprOK(a) {
					return false
				}
			}
		case *ast.SwitchStmt:
			if v.Init != nil || (v.Tag != nil && !exprOK(v.Tag)) {
				return false
			}
			for _, c := range v.Body.List {
				if !localOnly(c.(*ast.CaseClause).Body, declared) {
					return false
				}
			}
		case *ast.RangeStmt:
			if v.Tok != token.DEFINE || !exprOK(v.X) {
				return false
			}
			for _, e := range []ast.Expr{v.Key, v.Value} {
				if id, ok := e.(*ast.Ident); ok {
					declared[id.Name] = true
				}
			}
			if !localOnly(v.Body.List, declared) {
				return false
			}
		default:
			return false
		}
	}
	return true
}

// assignedOuter lists the identifiers assigned with = inside the statements
func assignedOuter(list []ast.Stmt) []string {
	seen := map[string]bool{}
	var out []string
	for _, s := range list {
		ast.Inspect(s, func(n ast.Node) bool {
			if a, ok := n.(*ast.AssignStmt); ok && a.Tok == token.ASSIGN {
				for _, l := range a.Lhs {
					if id, ok := l.(*ast.Ident); ok && id.Name != "_" && !seen[id.Name] {
						seen[id.Name] = true
						out = append(out, id.Name)
					}
				}
			}
			if _, ok := n.(*ast.ReturnStmt); ok {
				fail(n.Pos(), "return inside a loop")
			}
			if b, ok := n.(*ast.BranchStmt); ok {
				fail(b.Pos(), "%s inside a loop", b.Tok)
			}
			return true
		})
	}
	return out
}

var loopConts []cont
var curRetTypes []string

// value loops (see trLoopV): inside the body of one, the "result" of the enclosing code is
// Sum (function result) (loop state); resTypeStack holds those types, innermost last
var resTypeStack []string

func currentResultType() string {
	if n := len(resTypeStack); n > 0 {
		return resTypeStack[n-1]
	}
	return strings.Join(curRetTypes, " × ")
}

// wrapResult: a function result produced inside a value loop leaves the loop as Sum.inl
func wrapResult(s string) string {
	if len(resTypeStack) > 0 {
		return "(Sum.inl " + atom(s) + ")"
	}
	return s
}
var loopIndex int

// needsGeneralLoop: the body returns, continues, or updates something other than one accumulator
func needsGeneralLoop(list []ast.Stmt) bool {
	general := false
	for _, s := range list {
		ast.Inspect(s, func(n ast.Node) bool {
			switch x := n.(type) {
			case *ast.ReturnStmt, *ast.IncDecStmt:
				general = true
			case *ast.BranchStmt:
				general = true
			case *ast.CallExpr:
				if statefulCallee(x) != nil {
					general = true
				}
				if cur != nil {
					fn := render(x.Fun)
					o, ok := cur.oracles[fn]
					if !ok {
						if sel, isSel := x.Fun.(*ast.SelectorExpr); isSel {
							o, ok = cur.oracles["*."+sel.Sel.Name]
						}
					}
					if ok && o.effect != "" {
						general = true
					}
				}
			case *ast.AssignStmt:
				for _, l := range x.Lhs {
					switch l.(type) {
					case *ast.SelectorExpr, *ast.IndexExpr, *ast.StarExpr:
						general = true
					}
				}
			}
			if ce, ok := n.(*ast.CallExpr); ok && cur != nil {
				if sel, ok := ce.Fun.(*ast.SelectorExpr); ok && sel.Sel.Name == "Add" && len(ce.Args) == 1 && cur.isState(render(sel.X)) {
					general = true
				}
			}
			if ce, ok := n.(*ast.CallExpr); ok && cur != nil && cur.tbFatal {
				fn := render(ce.Fun)
				if o, ok := cur.oracles[fn]; fn == "t.Fatalf" || fn == "t.Fatal" || (ok && o.fatalIfFalse) {
					general = true
				}
			}
			return !general
		})
	}
	return general
}

// loopState: the outer places the body assigns: identifiers, state fields, local structs (by field)
func loopState(list []ast.Stmt, en env) []string {
	seen := map[string]bool{}
	var out []string
	add := func(k string) {
		if _, ok := en.vars[k]; ok && !seen[k] {
			seen[k] = true
			out = append(out, k)
		}
	}
	for _, s := range list {
		ast.Inspect(s, func(n ast.Node) bool {
			var lhs []ast.Expr
			switch x := n.(type) {
			case *ast.AssignStmt:
				if x.Tok == token.ASSIGN {
					lhs = x.Lhs
				}
			case *ast.IncDecStmt:
				lhs = []ast.Expr{x.X}
			case *ast.CallExpr:
				if sp := statefulCallee(x); sp != nil {
					for _, st := range sp.state {
						add(st.goExpr)
					}
				}
			}
			if ce, ok := n.(*ast.CallExpr); ok && render(ce.Fun) == "delete" && len(ce.Args) == 2 {
				add(render(ce.Args[0]))
			}
			if ce, ok := n.(*ast.CallExpr); ok && cur != nil {
				// x.Add(n) on a counter held in the state
				if sel, ok := ce.Fun.(*ast.SelectorExpr); ok && sel.Sel.Name == "Add" && len(ce.Args) == 1 && cur.isState(render(sel.X)) {
					add(render(sel.X))
				}
			}
			for _, l := range lhs {
				switch lv := l.(type) {
				case *ast.Ident:
					add(lv.Name)
				case *ast.StarExpr:
					add(render(lv))
				case *ast.IndexExpr:
					add(render(lv.X))
				case *ast.SelectorExpr:
					r := render(lv)
					if cur != nil && cur.isState(r) {
						add(r)
					} else if id, ok := lv.X.(*ast.Ident); ok {
						add(id.Name)
					} else if cur != nil {
						// a field below a state pointer (i.pb.G.F = v): the state field changes
						var root ast.Expr = lv
						for {
							se, ok := root.(*ast.SelectorExpr)
							if !ok || cur.isState(render(root)) {
								break
							}
							root = se.X
						}
						if cur.isState(render(root)) {
							add(render(root))
						} else {
							fail(lv.Pos(), "assignment to %s inside a loop or branch", r)
						}
					}
				}
			}
			return true
		})
	}
	return out
}

// trLoop: for _, x := range L { body } in general: a structurally recursive local function whose
// arguments are the outer places the body assigns; the code after the loop is its base case
func trLoop(v *ast.RangeStmt, en env, next cont) string {
	if v.Tok != token.DEFINE {
		fail(v.Pos(), "range form")
	}
	l := rangeSubject(v.X, en)
	en = absorb(en)
	if l.kd.k == "set" {
		// for k := range set: the keys, in an arbitrary order
		if v.Value != nil {
			fail(v.Pos(), "range over a set with a value variable")
		}
		es := "Nat"
		if l.kd.s == "String" {
			es = "String"
		}
		l = val{lean: l.lean, kd: kind{k: "list", s: es, elemNN: true}}
		v = &ast.RangeStmt{For: v.For, Key: &ast.Ident{Name: "_"}, Value: v.Key, Tok: v.Tok, X: v.X, Body: v.Body}
	}
	isMap := l.kd.k == "map"
	mapKeyKind := mapKey(l.kd)
	if isMap {
		// a Go map of structs: a list of (key, value) pairs in an arbitrary order
		l = val{lean: l.lean, kd: kind{k: "list", s: l.kd.s, keyed: true, elemNN: true}}
	}
	if l.kd.k != "list" {
		fail(v.Pos(), "range over %s", l.kd)
	}
	// `for k := range m` / `for k, v := range m` over a map that is represented as a list of
	// elements carrying their key in a field Key (any order: the theorems quantify over the list)
	keyName := ""
	if k, ok := v.Key.(*ast.Ident); ok && k.Name != "_" {
		if !l.kd.keyed {
			fail(v.Pos(), "range with an index variable over a list that is not a keyed map")
		}
		keyName = k.Name
	}
	xv := &ast.Ident{Name: "elem"}
	if v.Value != nil {
		xv = v.Value.(*ast.Ident)
	}
	state := loopState(v.Body.List, en)
	lets := takeLets()
	// the current values of the state (a local struct with assigned fields is passed as one value)
	var inits, binders, types []string
	e0 := en.clone()
	for _, k := range state {
		x := materialise(e0.vars[k], e0, v.Pos())
		lets = append(lets, takeLets()...)
		e0.vars[k] = x
		inits = append(inits, atom(x.lean))
		types = append(types, leanType(x.kd))
		binders = append(binders, fresh(lastName(k)))
	}
	effName := ""
	if cur != nil && cur.effects {
		// the effects recorded so far travel through the loop as one more argument
		effName = fresh("effs")
		inits = append(inits, atom(effsExpr(e0)))
		types = append(types, "List Eff")
		binders = append(binders, effName)
	}
	loopIndex++
	goName := fmt.Sprintf("loop%d", loopIndex)
	rest := fresh("rest")
	xn := fresh(xv.Name)
	bindState := func(e env) env {
		e = e.clone()
		for i, k := range state {
			x := e0.vars[k]
			nv := val{lean: binders[i], kd: x.kd, path: fresh("path")}
			if x.kd.k == "ptr" && !x.kd.nn {
				// a pointer to a local struct stays non-nil; it is matched below
				nv.path = x.path
			}
			e.vars[k] = nv
		}
		return e
	}
	// pointers to local structs are passed as their (non-nil) struct value
	for i, k := range state {
		x := e0.vars[k]
		if x.kd.k == "ptr" && !x.kd.nn {
			b, ok := e0.bound[x.path]
			if !ok {
				fail(v.Pos(), "loop state %s is a pointer that may be nil", k)
			}
			inits[i] = atom(b)
			types[i] = leanStruct[x.kd.s]
		}
	}
	rebind := func(e env) env {
		e = bindState(e)
		if effName != "" {
			e.effBase, e.effects = effName, nil
		}
		for i, k := range state {
			x := e0.vars[k]
			if x.kd.k == "ptr" && !x.kd.nn {
				p := fresh("path")
				e.bound[p] = binders[i]
				e.vars[k] = val{lean: "(some " + binders[i] + ")", kd: x.kd, path: p}
			}
		}
		return e
	}
	retType := strings.Join(curRetTypes, " × ")
	base := next(rebind(e0))
	inner := rebind(e0).push()
	elemKind := kPtr(l.kd.s)
	if isMap {
		pv := fresh("path")
		inner.bound[pv] = xn + ".2"
		inner.declare(xv.Name, val{lean: "(some " + xn + ".2)", kd: elemKind, path: pv})
		if keyName != "" {
			inner.declare(keyName, val{lean: xn + ".1", kd: mapKeyKind})
			keyName = ""
		}
	} else if l.kd.s == "Bool" {
		inner.declare(xv.Name, val{lean: xn, kd: kBool})
	} else if l.kd.s == "Nat" {
		inner.declare(xv.Name, val{lean: xn, kd: kNat})
	} else if l.kd.s != "String" {
		inner.declare(xv.Name, val{lean: xn, kd: elemKind, path: fresh("path")})
		if l.kd.elemNN {
			ev := inner.vars[xv.Name]
			inner.bound[ev.path] = xn
			ev.lean = "(some " + xn + ")"
			inner.vars[xv.Name] = ev
		}
	} else {
		inner.declare(xv.Name, val{lean: xn, kd: kStr})
	}
	if keyName != "" {
		inner.declare(keyName, selectField(inner.vars[xv.Name], "Key", inner, v.Pos()))
	}
	recur := func(e env) string {
		var args []string
		e = e.clone()
		for i, k := range state {
			x := materialise(e.vars[k], e, v.Pos())
			a := atom(x.lean)
			if x0 := e0.vars[k]; x0.kd.k == "ptr" && !x0.kd.nn {
				b, ok := e.bound[x.path]
				if !ok {
					fail(v.Pos(), "loop state %s may be nil at the end of the body", k)
				}
				a = atom(b)
			}
			_ = i
			args = append(args, a)
		}
		if effName != "" {
			args = append(args, atom(effsExpr(e)))
		}
		ls := takeLets()
		return wrapLets(ls, "("+goName+" "+rest+" "+strings.Join(args, " ")+")")
	}
	loopConts = append(loopConts, recur)
	body := trStmts(v.Body.List, inner, func(e env) string { return recur(e.pop()) })
	loopConts = loopConts[:len(loopConts)-1]
	elemT := leanStruct[l.kd.s]
	if l.kd.s == "Nat" {
		elemT = "Nat"
	}
	if !l.kd.elemNN && l.kd.s != "String" && l.kd.s != "Bool" && l.kd.s != "Nat" {
		elemT = "Option " + elemT
	}
	if isMap {
		elemT = leanType(mapKeyKind) + " × " + elemT
	}
	sig := "List (" + elemT + ")"
	for _, t := range types {
		sig += " → " + atom2(t)
	}
	sig += " → " + atom2(retType)
	pats := strings.Join(binders, ", ")
	lv := fresh("l")
	cpats := ""
	if len(binders) > 0 {
		cpats = ", " + pats
	}
	def := fmt.Sprintf("let rec %s : %s := fun %s %s => (match %s%s with\n| []%s => %s\n| %s :: %s%s => %s)", goName, sig, lv, strings.Join(binders, " "), lv, cpats, cpats, base, xn, rest, cpats, body)
	return wrapLets(lets, "("+def+";\n"+goName+" "+atom(l.lean)+" "+strings.Join(inits, " ")+")")
}

// trLoopV: the same loop as a function that *returns*: Sum.inl r when the body executed a `return`
// (r is the function's result), Sum.inr (state) when the list is exhausted; the code after the
// loop then matches on it. Unlike trLoop the code after the loop is not inside the recursive
// function, so a loop nested in another loop can fall back into the outer one without making the
// two mutually recursive.
func trLoopV(v *ast.RangeStmt, en env, next cont) string {
	if v.Tok != token.DEFINE {
		fail(v.Pos(), "range form")
	}
	l := rangeSubject(v.X, en)
	en = absorb(en)
	if l.kd.k == "set" {
		// for k := range set: the keys, in an arbitrary order
		if v.Value != nil {
			fail(v.Pos(), "range over a set with a value variable")
		}
		es := "Nat"
		if l.kd.s == "String" {
			es = "String"
		}
		l = val{lean: l.lean, kd: kind{k: "list", s: es, elemNN: true}}
		v = &ast.RangeStmt{For: v.For, Key: &ast.Ident{Name: "_"}, Value: v.Key, Tok: v.Tok, X: v.X, Body: v.Body}
	}
	isMap := l.kd.k == "map"
	mapKeyKind := mapKey(l.kd)
	if isMap {
		// a Go map of structs: a list of (key, value) pairs in an arbitrary order
		l = val{lean: l.lean, kd: kind{k: "list", s: l.kd.s, keyed: true, elemNN: true}}
	}
	if l.kd.k != "list" {
		fail(v.Pos(), "range over %s", l.kd)
	}
	// `for k := range m` / `for k, v := range m` over a map that is represented as a list of
	// elements carrying their key in a field Key (any order: the theorems quantify over the list)
	keyName := ""
	if k, ok := v.Key.(*ast.Ident); ok && k.Name != "_" {
		if !l.kd.keyed {
			fail(v.Pos(), "range with an index variable over a list that is not a keyed map")
		}
		keyName = k.Name
	}
	xv := &ast.Ident{Name: "elem"}
	if v.Value != nil {
		xv = v.Value.(*ast.Ident)
	}
	state := loopState(v.Body.List, en)
	lets := takeLets()
	// the current values of the state (a local struct with assigned fields is passed as one value)
	var inits, binders, types []string
	e0 := en.clone()
	for _, k := range state {
		x := materialise(e0.vars[k], e0, v.Pos())
		lets = append(lets, takeLets()...)
		e0.vars[k] = x
		inits = append(inits, atom(x.lean))
		types = append(types, leanType(x.kd))
		binders = append(binders, fresh(lastName(k)))
	}
	effName := ""
	if cur != nil && cur.effects {
		// the effects recorded so far travel through the loop as one more argument
		effName = fresh("effs")
		inits = append(inits, atom(effsExpr(e0)))
		types = append(types, "List Eff")
		binders = append(binders, effName)
	}
	loopIndex++
	goName := fmt.Sprintf("loop%d", loopIndex)
	rest := fresh("rest")
	xn := fresh(xv.Name)
	bindState := func(e env) env {
		e = e.clone()
		for i, k := range state {
			x := e0.vars[k]
			nv := val{lean: binders[i], kd: x.kd, path: fresh("path")}
			if x.kd.k == "ptr" && !x.kd.nn {
				// a pointer to a local struct stays non-nil; it is matched below
				nv.path = x.path
			}
			e.vars[k] = nv
		}
		return e
	}
	// pointers to local structs are passed as their (non-nil) struct value
	for i, k := range state {
		x := e0.vars[k]
		if x.kd.k == "ptr" && !x.kd.nn {
			b, ok := e0.bound[x.path]
			if !ok {
				fail(v.Pos(), "loop state %s is a pointer that may be nil", k)
			}
			inits[i] = atom(b)
			types[i] = leanStruct[x.kd.s]
		}
	}
	rebind := func(e env) env {
		e = bindState(e)
		if effName != "" {
			e.effBase, e.effects = effName, nil
		}
		for i, k := range state {
			x := e0.vars[k]
			if x.kd.k == "ptr" && !x.kd.nn {
				p := fresh("path")
				e.bound[p] = binders[i]
				e.vars[k] = val{lean: "(some " + binders[i] + ")", kd: x.kd, path: p}
			}
		}
		return e
	}
	stateT := "Unit"
	if len(types) > 0 {
		var ts []string
		for _, t := range types {
			ts = append(ts, atom2(t))
		}
		stateT = strings.Join(ts, " × ")
	}
	// the payload of Sum.inl is always the function's own result, whatever the nesting
	outerRes := strings.Join(curRetTypes, " × ")
	retType := "Sum " + atom2(outerRes) + " " + atom2(stateT)
	stateTuple := "()"
	if len(binders) > 0 {
		stateTuple = "(" + strings.Join(binders, ", ") + ")"
	}
	base := "(Sum.inr " + stateTuple + ")"
	resTypeStack = append(resTypeStack, retType)
	inner := rebind(e0).push()
	elemKind := kPtr(l.kd.s)
	if isMap {
		pv := fresh("path")
		inner.bound[pv] = xn + ".2"
		inner.declare(xv.Name, val{lean: "(some " + xn + ".2)", kd: elemKind, path: pv})
		if keyName != "" {
			inner.declare(keyName, val{lean: xn + ".1", kd: mapKeyKind})
			keyName = ""
		}
	} else if l.kd.s == "Bool" {
		inner.declare(xv.Name, val{lean: xn, kd: kBool})
	} else if l.kd.s == "Nat" {
		inner.declare(xv.Name, val{lean: xn, kd: kNat})
	} else if l.kd.s != "String" {
		inner.declare(xv.Name, val{lean: xn, kd: elemKind, path: fresh("path")})
		if l.kd.elemNN {
			ev := inner.vars[xv.Name]
			inner.bound[ev.path] = xn
			ev.lean = "(some " + xn + ")"
			inner.vars[xv.Name] = ev
		}
	} else {
		inner.declare(xv.Name, val{lean: xn, kd: kStr})
	}
	if keyName != "" {
		inner.declare(keyName, selectField(inner.vars[xv.Name], "Key", inner, v.Pos()))
	}
	recur := func(e env) string {
		var args []string
		e = e.clone()
		for i, k := range state {
			x := materialise(e.vars[k], e, v.Pos())
			a := atom(x.lean)
			if x0 := e0.vars[k]; x0.kd.k == "ptr" && !x0.kd.nn {
				b, ok := e.bound[x.path]
				if !ok {
					fail(v.Pos(), "loop state %s may be nil at the end of the body", k)
				}
				a = atom(b)
			}
			_ = i
			args = append(args, a)
		}
		if effName != "" {
			args = append(args, atom(effsExpr(e)))
		}
		ls := takeLets()
		return wrapLets(ls, "("+goName+" "+rest+" "+strings.Join(args, " ")+")")
	}
	loopConts = append(loopConts, recur)
	body := trStmts(v.Body.List, inner, func(e env) string { return recur(e.pop()) })
	loopConts = loopConts[:len(loopConts)-1]
	resTypeStack = resTypeStack[:len(resTypeStack)-1]
	elemT := leanStruct[l.kd.s]
	if l.kd.s == "Nat" {
		elemT = "Nat"
	}
	if !l.kd.elemNN && l.kd.s != "String" && l.kd.s != "Bool" && l.kd.s != "Nat" {
		elemT = "Option " + elemT
	}
	if isMap {
		elemT = leanType(mapKeyKind) + " × " + elemT
	}
	sig := "List (" + elemT + ")"
	for _, t := range types {
		sig += " → " + atom2(t)
	}
	sig += " → " + atom2(retType)
	pats := strings.Join(binders, ", ")
	lv := fresh("l")
	cpats := ""
	if len(binders) > 0 {
		cpats = ", " + pats
	}
	def := fmt.Sprintf("let rec %s : %s := fun %s %s => (match %s%s with\n| []%s => %s\n| %s :: %s%s => %s)", goName, sig, lv, strings.Join(binders, " "), lv, cpats, cpats, base, xn, rest, cpats, body)
	// after the loop: a return from inside it is the result of the enclosing code; otherwise go on
	// with the state it left
	var outs []string
	after := e0.clone()
	for i, k := range state {
		x := e0.vars[k]
		on := fresh(lastName(k))
		outs = append(outs, on)
		nv := val{lean: on, kd: x.kd, path: fresh("path")}
		if cur.isState(k) {
			nv.path = x.path
		}
		if x.kd.k == "ptr" && !x.kd.nn {
			// a pointer to a local struct travelled as its struct value
			nv.lean = "(some " + on + ")"
			after.bound[nv.path] = on
		}
		after.vars[k] = nv
		_ = i
	}
	if effName != "" {
		on := fresh("effs")
		outs = append(outs, on)
		after.effBase, after.effects = on, nil
	}
	outPat := "()"
	if len(outs) > 0 {
		outPat = "(" + strings.Join(outs, ", ") + ")"
	}
	rv := fresh("ret")
	cont := next(after)
	return wrapLets(lets, "("+def+";\n(match "+goName+" "+atom(l.lean)+" "+strings.Join(inits, " ")+" with\n| Sum.inl "+rv+" => "+wrapResult(rv)+"\n| Sum.inr "+outPat+" => "+cont+"))")
}


// rangeSubject: the list a range statement walks: a list, a map, a slice that may be nil, or a
// literal []bool{..}
func rangeSubject(e ast.Expr, en env) val {
	if cl, ok := e.(*ast.CompositeLit); ok {
		if at, ok := cl.Type.(*ast.ArrayType); ok && render(at.Elt) == "bool" {
			var els []string
			for _, el := range cl.Elts {
				els = append(els, trBool(el, en))
			}
			return val{lean: "[" + strings.Join(els, ", ") + "]", kd: kind{k: "list", s: "Bool", elemNN: true}}
		}
	}
	l := trExpr(e, en)
	if l.kd.k == "ptr" {
		if lk, ok := listOf[l.kd.s]; ok {
			// ranging over a nil slice is ranging over an empty one
			return val{lean: "(" + atom(l.lean) + ".getD [])", kd: lk}
		}
	}
	return l
}

func atom2(s string) string {
	if !strings.ContainsAny(s, " ") {
		return s
	}
	// already one parenthesised group?
	if strings.HasPrefix(s, "(") && strings.HasSuffix(s, ")") {
		depth := 0
		single := true
		for i, c := range s {
			switch c {
			case '(':
				depth++
			case ')':
				depth--
				if depth == 0 && i != len(s)-1 {
					single = false
				}
			}
		}
		if single {
			return s
		}
	}
	return "(" + s + ")"
}

// trRange: for _, x := range L { body } where the body only updates one accumulator:
// acc' := L.foldl (fun acc x => body) acc
func trRange(v *ast.RangeStmt, en env, next cont) string {
	if v.Tok == token.DEFINE && v.Value == nil {
		if kid, ok := v.Key.(*ast.Ident); ok {
			if l := trExpr(v.X, en); l.kd.k == "map" {
				// for k := range m: the keys of a Go map, in an arbitrary order
				accs := assignedOuter(v.Body.List)
				if len(accs) != 1 {
					fail(v.Pos(), "loop body assigns %d outer variables (exactly one accumulator is supported)", len(accs))
				}
				acc, ok := en.vars[accs[0]]
				if !ok {
					fail(v.Pos(), "loop accumulator %s is not declared", accs[0])
				}
				lets := takeLets()
				an, xn := fresh("acc"), fresh(kid.Name)
				inner := en.push()
				inner.vars[accs[0]] = val{lean: an, kd: acc.kd}
				inner.declare(kid.Name, val{lean: xn + ".1", kd: mapKey(l.kd)})
				nEff := len(inner.effects)
				body := trStmts(v.Body.List, inner, func(e env) string {
					if len(e.effects) != nEff {
						fail(v.Pos(), "effect inside a loop")
					}
					ls := takeLets()
					return wrapLets(ls, e.vars[accs[0]].lean)
				})
				rn := fresh(accs[0])
				e1 := en.clone()
				e1.vars[accs[0]] = val{lean: rn, kd: acc.kd}
				return wrapLets(append(lets, fmt.Sprintf("let %s := (%s).foldl (fun %s %s => %s) %s", rn, l.lean, an, xn, body, acc.lean)), next(e1))
			}
		}
	}
	if v.Tok != token.DEFINE || v.Value == nil {
		fail(v.Pos(), "range form")
	}
	if k, ok := v.Key.(*ast.Ident); !ok || k.Name != "_" {
		fail(v.Pos(), "range with an index variable")
	}
	xv, ok := v.Value.(*ast.Ident)
	if !ok {
		fail(v.Pos(), "range value")
	}
	l := trExpr(v.X, en)
	elemSuffix := ""
	if l.kd.k == "map" {
		// a Go map of pointers: its (key, value) pairs in an arbitrary order
		l = val{lean: l.lean, kd: kind{k: "list", s: l.kd.s, elemNN: true}}
		elemSuffix = ".2"
	}
	if l.kd.k != "list" || l.kd.s == "AFTResult" {
		fail(v.Pos(), "range over %s", l.kd)
	}
	accs := assignedOuter(v.Body.List)
	if len(accs) != 1 {
		fail(v.Pos(), "loop body assigns %d outer variables (exactly one accumulator is supported)", len(accs))
	}
	acc, ok := en.vars[accs[0]]
	if !ok {
		fail(v.Pos(), "loop accumulator %s is not declared", accs[0])
	}
	lets := takeLets()
	an, xn := fresh("acc"), fresh(xv.Name)
	inner := en.push()
	inner.vars[accs[0]] = val{lean: an, kd: acc.kd}
	inner.declare(xv.Name, val{lean: xn + elemSuffix, kd: kPtrNN(l.kd.s), path: fresh("path")})
	nEff := len(inner.effects)
	body := trStmts(v.Body.List, inner, func(e env) string {
		if len(e.effects) != nEff {
			fail(v.Pos(), "effect inside a loop")
		}
		ls := takeLets()
		return wrapLets(ls, e.vars[accs[0]].lean)
	})
	rn := fresh(accs[0])
	e1 := en.clone()
	e1.vars[accs[0]] = val{lean: rn, kd: acc.kd}
	return wrapLets(append(lets, fmt.Sprintf("let %s := (%s).foldl (fun %s %s => %s) %s", rn, l.lean, an, xn, body, acc.lean)), next(e1))
}

func zeroOf(k kind) string {
	if k.k == "ptr" && k.nn {
		return "default"
	}
	switch k.k {
	case "bool":
		return "false"
	case "str":
		return `""`
	case "ptr", "oneof":
		return "none"
	case "list":
		return "[]"
	}
	return "0"
}

// trCall translates a call expression to the values it returns.
func trCall(c *ast.CallExpr, en env) []val {
	fn := render(c.Fun)
	if fn == "len" && len(c.Args) == 1 {
		x := trExpr(c.Args[0], en)
		if x.kd.k != "list" && x.kd.k != "map" {
			fail(c.Pos(), "len of %s", x.kd)
		}
		return []val{{lean: "(" + atom(x.lean) + ".length)", kd: kNat}}
	}
	if cl, ok := en.closures[fn]; ok && cl != nil {
		fail(c.Pos(), "call of the local function %s outside a return statement", fn)
	}
	if fn == "make" && len(c.Args) >= 1 {
		if mt, ok := c.Args[0].(*ast.MapType); ok {
			if st, ok := mt.Value.(*ast.StarExpr); ok {
				name := render(st.X)
				if cur != nil {
					if a, ok := cur.typeMap[name]; ok {
						name = a
					}
				}
				if _, ok := schemas[name]; ok {
					kk := kNat
					if render(mt.Key) == "string" {
						kk = kStr
					}
					return []val{{lean: "[]", kd: kind{k: "map", s: name, t: []kind{kk}}}}
				}
			}
		}
		fail(c.Pos(), "make of %s", render(c.Args[0]))
	}
	if fn == "uint64" && len(c.Args) == 1 {
		x := trExpr(c.Args[0], en)
		if x.kd.k != "nat" && x.kd.k != "u64" {
			fail(c.Pos(), "uint64 of %s", x.kd)
		}
		// an unsigned value (uint32 or uint64 in the source) keeps its value
		return []val{{lean: x.lean, kd: kNat}}
	}
	if fn == "uint32" && len(c.Args) == 1 {
		x := trExpr(c.Args[0], en)
		if x.kd.k != "nat" && x.kd.k != "u64" {
			fail(c.Pos(), "uint32 of %s", x.kd)
		}
		// the conversion keeps the low 32 bits
		return []val{{lean: "(" + atom(x.lean) + " % 4294967296)", kd: kNat}}
	}
	if fn == "append" && len(c.Args) == 2 {
		a, b := trExpr(c.Args[0], en), trExpr(c.Args[1], en)
		if a.kd.k == "list" && a.kd.s == "String" && b.kd.k == "str" {
			return []val{{lean: "(" + a.lean + " ++ [" + b.lean + "])", kd: a.kd}}
		}
		if a.kd.k == "list" && a.kd.s == "Nat" && (b.kd.k == "nat" || b.kd.k == "u64") {
			return []val{{lean: "(" + a.lean + " ++ [" + b.lean + "])", kd: a.kd}}
		}
		if a.kd.k == "list" && a.kd.s == "Status" && b.kd.k == "status" {
			bn, ok := en.bound[b.path]
			if !ok {
				fail(c.Pos(), "append of an error that may be nil")
			}
			return []val{{lean: "(" + a.lean + " ++ [" + bn + "])", kd: a.kd}}
		}
		if a.kd.k != "list" || !((a.kd.s == "AFTResult" && b.kd.k == "aftresult") || (b.kd.k == "ptr" && b.kd.s == a.kd.s)) {
			fail(c.Pos(), "append of %s to %s", b.kd, a.kd)
		}
		el := b.lean
		if a.kd.optElems {
			// a list of pointers that may be nil
			if b.kd.nn {
				el = "(some " + atom(b.lean) + ")"
			}
		} else if b.kd.k == "ptr" && !b.kd.nn {
			// the list holds the structs themselves: the appended pointer must be non-nil
			bn, ok := en.bound[b.path]
			if !ok {
				fail(c.Pos(), "append of a pointer that may be nil")
			}
			el = bn
		}
		return []val{{lean: "(" + a.lean + " ++ [" + el + "])", kd: a.kd}}
	}
	// uint128
	if fn == "uint128.New" && len(c.Args) == 2 {
		lo, hi := trExpr(c.Args[0], en), trExpr(c.Args[1], en)
		return []val{{lean: "(u128 " + atom(lo.lean) + " " + atom(hi.lean) + ")", kd: kU128}}
	}
	if sel, ok := c.Fun.(*ast.SelectorExpr); ok {
		switch {
		case sel.Sel.Name == "Cmp" && len(c.Args) == 1:
			a, b := trExpr(sel.X, en), trExpr(c.Args[0], en)
			if a.kd.k == "u128" && b.kd.k == "u128" {
				return []val{{lean: "(cmp " + atom(a.lean) + " " + atom(b.lean) + ")", kd: kInt}}
			}
		case sel.Sel.Name == "Equals" && len(c.Args) == 1:
			a, b := trExpr(sel.X, en), trExpr(c.Args[0], en)
			if a.kd.k == "u128" && b.kd.k == "u128" {
				return []val{{lean: "(equals " + atom(a.lean) + " " + atom(b.lean) + ")", kd: kBool}}
			}
		case strings.HasPrefix(sel.Sel.Name, "Get") && !strings.HasPrefix(sel.Sel.Name, "GetOrCreate") && len(c.Args) == 0:
			x := trExpr(sel.X, en)
			if x.kd.k == "ptr" && !x.kd.nn {
				if _, bound := en.bound[x.path]; !bound && !en.isNil[x.path] {
					// protobuf getters are nil-safe: a nil receiver yields the zero value
					fname := strings.TrimPrefix(sel.Sel.Name, "Get")
					f := fieldOf(x.kd.s, fname, c.Pos())
					if f.kd.k == "ptr" && f.kd.nn {
						fail(c.Pos(), "getter %s of a pointer that may be nil returns a pointer the schema declares never nil", sel.Sel.Name)
					}
					switch f.kd.k {
					case "ptr", "oneof":
						return []val{{lean: "(" + atom(x.lean) + ".bind (fun v => v." + f.lean + "))", kd: f.kd, path: x.path + "." + fname}}
					default:
						return []val{{lean: "((" + atom(x.lean) + ".map (fun v => v." + f.lean + ")).getD " + zeroOf(f.kd) + ")", kd: f.kd, path: x.path + "." + fname}}
					}
				}
			}
			if x.kd.k == "ptr" || x.kd.k == "struct" {
				return []val{selectField(x, strings.TrimPrefix(sel.Sel.Name, "Get"), en, c.Pos())}
			}
		}
	}
	// a recursive call: the function to call is the parameter `self`; the state and the effects
	// recorded so far go in, the new state and the extended effect list come out
	if cur != nil && cur.selfRec && fn == cur.callAs {
		if len(c.Args) != len(cur.params) {
			fail(c.Pos(), "recursive call with %d arguments", len(c.Args))
		}
		if len(oracleEffects) > 0 || len(pendingState) > 0 || pendingEffBase != "" {
			fail(c.Pos(), "recursive call inside an expression with other calls")
		}
		var args []string
		for j, a := range c.Args {
			pp := cur.params[j]
			if pp.skip {
				continue
			}
			x := trExpr(a, en)
			if pp.nonnil {
				if x.kd.k == "ptr" && x.kd.nn {
					args = append(args, atom(x.lean))
					continue
				}
				b, ok := en.bound[x.path]
				if !ok {
					fail(a.Pos(), "argument %s of the recursive call must be non-nil and is not known to be", render(a))
				}
				args = append(args, atom(b))
				continue
			}
			args = append(args, atom(x.lean))
		}
		for _, st := range cur.state {
			args = append(args, atom(en.vars[st.goExpr].lean))
		}
		args = append(args, atom(effsExpr(en)))
		n := fresh("rec")
		pendingLets = append(pendingLets, fmt.Sprintf("let %s := self %s", n, strings.Join(args, " ")))
		total := len(cur.rets) + len(cur.state) + 1
		var out []val
		for j, rk := range cur.rets {
			out = append(out, val{lean: n + "." + projPath(j, total), kd: retKind(rk), path: fresh("path")})
		}
		for j, st := range cur.state {
			sn := fresh(lastName(st.goExpr))
			pendingLets = append(pendingLets, fmt.Sprintf("let %s := %s.%s", sn, n, projPath(len(cur.rets)+j, total)))
			pendingState[st.goExpr] = val{lean: sn, kd: st.kd, path: st.goExpr}
		}
		en2 := fresh("effs")
		pendingLets = append(pendingLets, fmt.Sprintf("let %s := %s.%s", en2, n, projPath(total-1, total)))
		pendingEffBase = en2
		return out
	}
	if cur != nil && cur.statusViews {
		sel, isSel := c.Fun.(*ast.SelectorExpr)
		switch {
		case (fn == "status.FromProto" || fn == "int32") && len(c.Args) == 1:
			x := trExpr(c.Args[0], en)
			if fn == "int32" {
				return []val{x}
			}
			return []val{copyOf(x, en, c.Pos())}
		case fn == "proto.Equal" && len(c.Args) == 2:
			// field-by-field equality of two messages of the same known struct
			a, b := materialise(trExpr(c.Args[0], en), en, c.Pos()), materialise(trExpr(c.Args[1], en), en, c.Pos())
			if a.kd.k != "ptr" || b.kd.k != "ptr" || a.kd.s != b.kd.s {
				fail(c.Pos(), "proto.Equal of %s and %s", a.kd, b.kd)
			}
			opt := func(x val) string {
				if x.kd.nn {
					return "(some " + atom(x.lean) + ")"
				}
				return x.lean
			}
			// (two nil messages are equal, a nil and a non-nil one are not: equality of the options)
			return []val{{lean: "(decide (" + opt(a) + " = " + opt(b) + "))", kd: kBool}}
		case isSel && len(c.Args) == 0 && (sel.Sel.Name == "Proto" || sel.Sel.Name == "Code" || sel.Sel.Name == "Message"):
			x := trExpr(sel.X, en)
			if x.kd.k == "ptr" && x.kd.s == "GStatus" {
				if sel.Sel.Name == "Proto" {
					return []val{copyOf(x, en, c.Pos())}
				}
				x = materialise(x, en, c.Pos())
				if _, bound := en.bound[x.path]; !bound && !x.kd.nn {
					// the methods of *status.Status are nil-safe: a nil status has code OK and no message
					f := fieldOf(x.kd.s, sel.Sel.Name, c.Pos())
					return []val{{lean: "((" + atom(x.lean) + ".map (fun v => v." + f.lean + ")).getD " + zeroOf(f.kd) + ")", kd: f.kd}}
				}
				return []val{selectField(x, sel.Sel.Name, en, c.Pos())}
			}
		}
	}
	// oracle
	if cur != nil {
		o, ok := cur.oracles[fn]
		if !ok {
			if sel, isSel := c.Fun.(*ast.SelectorExpr); isSel {
				o, ok = cur.oracles["*."+sel.Sel.Name]
			}
		}
		if ok {
			if o.effect != "" {
				if !o.ownLock {
					requireHeld(c.Pos(), en, "call of "+fn)
				}
				var args []string
				if o.args != nil && containsInt(o.args, -1) {
					args = append(args, atom(trExpr(c.Fun.(*ast.SelectorExpr).X, en).lean))
				}
				for i, a := range c.Args {
					if o.args != nil && !containsInt(o.args, i) {
						continue
					}
					args = append(args, atom(trExpr(a, en).lean))
				}
				ctor := o.effect
				if i := strings.Index(ctor, ":"); i >= 0 {
					// a constructor with a leading constant argument
					args = append([]string{ctor[i+1:]}, args...)
					ctor = ctor[:i]
				}
				oracleEffects = append(oracleEffects, "(Eff."+ctor+" "+strings.Join(args, " ")+")")
			}
			for ai, pn := range o.outArgs {
				u, ok := c.Args[ai].(*ast.UnaryExpr)
				if !ok || u.Op != token.AND {
					fail(c.Pos(), "argument %d of %s is expected to be the address of a variable", ai, fn)
				}
				id, ok := u.X.(*ast.Ident)
				if !ok {
					fail(c.Pos(), "argument %d of %s is expected to be the address of a variable", ai, fn)
				}
				pendingLocals[id.Name] = en.vars[pn]
			}
			var out []val
			for _, r := range o.results {
				if r == "@self" {
					// the method returns a value represented like its receiver (a new object: it
					// gets a place of its own, with what is known about the receiver)
					rv := trExpr(c.Fun.(*ast.SelectorExpr).X, en)
					np := fresh("path")
					if b, ok := en.bound[rv.path]; ok {
						en.bound[np] = b
					}
					if en.isNil[rv.path] {
						en.isNil[np] = true
					}
					rv.path = np
					out = append(out, rv)
					continue
				}
				argVal := func(tok string) val {
					if tok == "recv" {
						return trExpr(c.Fun.(*ast.SelectorExpr).X, en)
					}
					ai, err := strconv.Atoi(tok)
					if err != nil || ai >= len(c.Args) {
						fail(c.Pos(), "oracle result %s", r)
					}
					return trExpr(c.Args[ai], en)
				}
				if strings.HasPrefix(r, "#") {
					// the call stands for a constant (an option value represented by a number)
					out = append(out, val{lean: r[1:], kd: kNat})
					continue
				}
				if r == "true" {
					// a declared precondition of the translated function: the call succeeds
					out = append(out, val{lean: "true", kd: kBool, path: "const:true"})
					continue
				}
				if strings.HasPrefix(r, "$") {
					// the result is one of the call's own arguments (or its receiver)
					out = append(out, argVal(r[1:]))
					continue
				}
				if i := strings.Index(r, "@"); i >= 0 {
					// a result that depends on arguments: the oracle parameter is a function
					f := en.vars[r[:i]]
					app := f.lean
					for _, tok := range strings.Split(r[i+1:], ",") {
						app += " " + atom(argVal(tok).lean)
					}
					out = append(out, val{lean: "(" + app + ")", kd: f.kd.t[0], path: fresh("path")})
					continue
				}
				out = append(out, en.vars[r])
			}
			if o.okOf {
				p := out[0]
				okv := val{lean: "(" + atom(p.lean) + ".isSome)", kd: kBool, path: "okof:" + p.path}
				okPairs[okv.path] = p
				out[1] = okv
			}
			if o.errOf {
				p, e := out[0], out[1]
				ev := val{lean: "(errOf " + atom(p.lean) + " " + atom(e.lean) + ")", kd: kind{k: "status"}, path: "errof:" + p.path}
				errPairs[ev.path] = p
				out[1] = ev
			}
			return out
		}
	}
	// another translated function
	for i := range specs {
		sp := &specs[i]
		isMethodCall := false
		if sp.recvIsParam && strings.HasPrefix(sp.callAs, "*.") {
			if sel, ok := c.Fun.(*ast.SelectorExpr); ok && sel.Sel.Name == sp.callAs[2:] {
				// a method of a translated struct type: the receiver is the first argument
				if rv := trExpr(sel.X, en); rv.kd.k == "ptr" && "*"+rv.kd.s == sp.recvType {
					isMethodCall = true
					nc := *c
					nc.Args = append([]ast.Expr{sel.X}, c.Args...)
					c = &nc
				}
			}
		}
		if sp.callAs == fn || isMethodCall {
			if failed[sp.leanName] {
				fail(c.Pos(), "call of %s, which could not be translated", fn)
			}
			if cur != nil {
				cur.uses[sp.leanName] = true
			}
			var args []string
			if len(c.Args) != len(sp.params) {
				fail(c.Pos(), "call of %s with %d arguments", fn, len(c.Args))
			}
			for j, a := range c.Args {
				if sp.params[j].skip {
					continue
				}
				x := trExpr(a, en)
				p := sp.params[j]
				if p.nonnil {
					if x.kd.k == "ptr" && x.kd.nn {
						args = append(args, atom(x.lean))
						continue
					}
					b, ok := en.bound[x.path]
					if !ok {
						fail(a.Pos(), "argument %s of %s must be non-nil and is not known to be", render(a), fn)
					}
					args = append(args, atom(b))
				} else if p.skip {
					continue
				} else {
					args = append(args, atom(x.lean))
				}
			}
			if sp.effects || sp.loop || sp.errChan {
				fail(c.Pos(), "call of %s, which has effects, cannot be inlined", fn)
			}
			// the callee's oracle parameters are the caller's of the same name; its state fields
			// are state fields of the caller (their current values go in, the new ones come out)
			for _, op := range sp.oracleParams {
				x, ok := en.vars[op.goName]
				if !ok || cur == nil {
					fail(c.Pos(), "call of %s: the caller has no oracle parameter %s", fn, op.goName)
				}
				if op.nonnil {
					b, ok := en.bound[x.path]
					if !ok {
						fail(c.Pos(), "call of %s: oracle parameter %s must be non-nil", fn, op.goName)
					}
					args = append(args, atom(b))
				} else {
					args = append(args, atom(x.lean))
				}
			}
			if len(pendingState) > 0 {
				fail(c.Pos(), "two calls of functions with state in one expression")
			}
			for _, st := range sp.state {
				x, ok := en.vars[st.goExpr]
				if !ok || cur == nil || !cur.isState(st.goExpr) {
					fail(c.Pos(), "call of %s: its state field %s is not a state field of the caller", fn, st.goExpr)
				}
				args = append(args, atom(x.lean))
			}
			app := "(" + sp.leanName + " " + strings.Join(args, " ") + ")"
			n := fresh("r")
			pendingLets = append(pendingLets, fmt.Sprintf("let %s := %s", n, app))
			var out []val
			total := len(sp.rets) + len(sp.state)
			for j, rk := range sp.rets {
				proj := n
				if total > 1 {
					proj = n + "." + projPath(j, total)
				}
				out = append(out, val{lean: proj, kd: retKind(rk), path: fresh("path")})
			}
			for j, st := range sp.state {
				proj := n
				if total > 1 {
					proj = n + "." + projPath(len(sp.rets)+j, total)
				}
				sn := fresh(lastName(st.goExpr))
				pendingLets = append(pendingLets, fmt.Sprintf("let %s := %s", sn, proj))
				pendingState[st.goExpr] = val{lean: sn, kd: st.kd, path: st.goExpr}
			}
			return out
		}
	}
	fail(c.Pos(), "call of %s is outside the translated subset", fn)
	return nil
}

// effects recorded while an expression was translated; absorb moves them into an environment
var oracleEffects []string

// effsExpr: the effects recorded so far as one Lean list expression
func effsExpr(en env) string {
	lit := "[" + strings.Join(en.effects, ", ") + "]"
	switch {
	case en.effBase == "":
		return lit
	case len(en.effects) == 0:
		return en.effBase
	}
	return "(" + en.effBase + " ++ " + lit + ")"
}

// pendingState: state fields changed by a call of a translated function that has state, until
// absorb moves them into an environment
var pendingState = map[string]val{}

// pendingLocals: local variables a callee overwrote through a pointer argument
var pendingLocals = map[string]val{}

// pendingEffBase: the effect list returned by a call of `self` (it extends the list passed in)
var pendingEffBase string

func absorb(en env) env {
	if len(oracleEffects) == 0 && len(pendingState) == 0 && pendingEffBase == "" && len(pendingLocals) == 0 {
		return en
	}
	e := en.clone()
	for k, v := range pendingLocals {
		e.vars[k] = v
	}
	pendingLocals = map[string]val{}
	if pendingEffBase != "" {
		e.effBase, e.effects = pendingEffBase, nil
		pendingEffBase = ""
	}
	e.effects = append(e.effects, oracleEffects...)
	oracleEffects = nil
	for k, v := range pendingState {
		if v.kd.k == "map" {
			forkEntries(&e, k)
		}
		e.vars[k] = v
		// what was known about the entries of a map the callee may have changed is forgotten
		for p := range e.bound {
			if strings.HasPrefix(p, k+"[") {
				delete(e.bound, p)
			}
		}
		for p := range e.isNil {
			if strings.HasPrefix(p, k+"[") {
				delete(e.isNil, p)
			}
		}
	}
	pendingState = map[string]val{}
	return e
}

// statefulCallee: the translated function (with state) that the call expression invokes, if any
func statefulCallee(c *ast.CallExpr) *fnSpec {
	fn := render(c.Fun)
	if cur != nil && cur.selfRec && fn == cur.callAs {
		return cur
	}
	for i := range specs {
		sp := &specs[i]
		if cur != nil && sp.file != cur.file {
			continue
		}
		if sp.callAs == fn && len(sp.state) > 0 && !sp.recvIsParam {
			return sp
		}
	}
	return nil
}

func containsInt(l []int, x int) bool {
	for _, y := range l {
		if y == x {
			return true
		}
	}
	return false
}

func projPath(j, n int) string {
	// right-nested pairs: (a, b, c) = (a, (b, c))
	if j == 0 {
		return "1"
	}
	s := ""
	for i := 0; i < j; i++ {
		s += "2."
	}
	if j == n-1 {
		return strings.TrimSuffix(s, ".")
	}
	return s + "1"
}

func retKind(r string) kind {
	if strings.HasPrefix(r, "ptr:") {
		return kPtr(strings.TrimPrefix(r, "ptr:"))
	}
	if strings.HasPrefix(r, "ptrnn:") {
		return kPtrNN(strings.TrimPrefix(r, "ptrnn:"))
	}
	if strings.HasPrefix(r, "list:") {
		return kind{k: "list", s: strings.TrimPrefix(r, "list:"), elemNN: true}
	}
	switch r {
	case "nat":
		return kNat
	case "bool":
		return kBool
	case "err":
		return kind{k: "status"}
	case "mresp":
		return kind{k: "mresp"}
	case "fresp":
		return kind{k: "fresp"}
	}
	return kind{k: r}
}

func atom(s string) string {
	if strings.ContainsAny(s, " ") && !(strings.HasPrefix(s, "(") && strings.HasSuffix(s, ")")) {
		return "(" + s + ")"
	}
	return s
}

// trBool: an expression of Go type bool as a Lean Bool term (no nil tests on unknown pointers)
func trBool(e ast.Expr, en env) string {
	switch v := e.(type) {
	case *ast.ParenExpr:
		return trBool(v.X, en)
	case *ast.UnaryExpr:
		if v.Op == token.NOT {
			return "(!" + trBool(v.X, en) + ")"
		}
	case *ast.BinaryExpr:
		switch v.Op {
		case token.LAND, token.LOR:
			// as a value (not a branch condition) both operands are translated unconditionally:
			// the right one must not have an effect that Go would skip
			l := trBool(v.X, en)
			n0, s0 := len(oracleEffects), len(pendingState)
			r := trBool(v.Y, en)
			if len(oracleEffects) != n0 || len(pendingState) != s0 {
				fail(v.Pos(), "the right operand of %s has an effect and the expression is used as a value", v.Op)
			}
			if v.Op == token.LAND {
				return "(" + l + " && " + r + ")"
			}
			return "(" + l + " || " + r + ")"
		case token.EQL, token.NEQ, token.LSS, token.LEQ, token.GTR, token.GEQ:
			return "(decide " + trProp(v, en) + ")"
		}
	}
	x := trExpr(e, en)
	if x.kd.k != "bool" {
		fail(e.Pos(), "%s is used as a bool but has kind %s", render(e), x.kd)
	}
	return x.lean
}

var relOps = map[token.Token]string{token.EQL: "=", token.NEQ: "≠", token.LSS: "<", token.LEQ: "≤", token.GTR: ">", token.GEQ: "≥"}

// trProp: a comparison as a decidable Lean proposition
func trProp(b *ast.BinaryExpr, en env) string {
	x, y := trExpr(b.X, en), trExpr(b.Y, en)
	if x.kd.k == "nilptr" || y.kd.k == "nilptr" {
		// a nil comparison used as a value: (p == nil) as Bool
		p, neg := x, b.Op == token.NEQ
		if x.kd.k == "nilptr" {
			p = y
		}
		if b.Op != token.EQL && b.Op != token.NEQ {
			fail(b.Pos(), "ordering comparison with nil")
		}
		if neg {
			return "(" + atom(p.lean) + ".isSome = true)"
		}
		return "(" + atom(p.lean) + ".isNone = true)"
	}
	ok := x.kd.k == y.kd.k || (x.kd.k == "int" && (y.kd.k == "u64" || y.kd.k == "nat" || y.kd.k == "enum")) || (y.kd.k == "int" && (x.kd.k == "u64" || x.kd.k == "nat" || x.kd.k == "enum"))
	if !ok {
		fail(b.Pos(), "comparison of %s (%s) with %s (%s)", render(b.X), x.kd, render(b.Y), y.kd)
	}
	switch x.kd.k {
	case "ptr", "struct", "tuple":
		fail(b.Pos(), "comparison of %s values", x.kd)
	}
	return "(" + x.lean + " " + relOps[b.Op] + " " + y.lean + ")"
}

// ---------------------------------------------------------------- conditions

type cont func(env) string

func isNilIdent(e ast.Expr) bool {
	id, ok := e.(*ast.Ident)
	return ok && id.Name == "nil"
}

func trCond(e ast.Expr, en env, kt, kf cont) string {
	switch v := e.(type) {
	case *ast.Ident:
		switch v.Name {
		case "true":
			return kt(en)
		case "false":
			return kf(en)
		}
	case *ast.CallExpr:
		if fl, ok := en.closures[render(v.Fun)]; ok && fl != nil && fl.Type.Results != nil && len(fl.Type.Results.List) == 1 && render(fl.Type.Results.List[0].Type) == "bool" {
			// the test of a local function's result: its body, inline, with the parameters bound to
			// the arguments; `return e` inside it continues where the test of e leads
			var names []string
			for _, p := range fl.Type.Params.List {
				for _, n := range p.Names {
					names = append(names, n.Name)
				}
			}
			if len(names) != len(v.Args) {
				fail(v.Pos(), "call of %s with %d arguments", render(v.Fun), len(v.Args))
			}
			depth := len(en.scopes)
			e1 := en.push()
			for i, a := range v.Args {
				x := trExpr(a, en)
				for k, b := range en.bound {
					e1.bound[k] = b
				}
				bindResult(&e1, names[i], x, true, v.Pos())
			}
			e1 = absorb(e1)
			lets := takeLets()
			saved := returnHook
			returnHook = func(r *ast.ReturnStmt, e2 env) string {
				if len(r.Results) != 1 {
					fail(r.Pos(), "return in a local function tested as a condition")
				}
				for len(e2.scopes) > depth {
					e2 = e2.pop()
				}
				inner := returnHook
				returnHook = saved
				out := trCond(r.Results[0], e2, kt, kf)
				returnHook = inner
				return out
			}
			out := trStmts(fl.Body.List, e1, func(env) string {
				fail(fl.Body.Rbrace, "control reaches the end of a local function that returns a value")
				return ""
			})
			returnHook = saved
			return wrapLets(lets, out)
		}
		if render(v.Fun) == "isNil" && len(v.Args) == 1 {
			// rib.isNil(x): the reflective nil test of a value of pointer type
			return trCond(&ast.BinaryExpr{X: v.Args[0], Op: token.EQL, OpPos: v.Pos(), Y: &ast.Ident{Name: "nil", NamePos: v.Pos()}}, en, kt, kf)
		}
	case *ast.ParenExpr:
		return trCond(v.X, en, kt, kf)
	case *ast.UnaryExpr:
		if v.Op == token.NOT {
			return trCond(v.X, en, kf, kt)
		}
	case *ast.BinaryExpr:
		switch v.Op {
		case token.LAND:
			return trCond(v.X, en, func(e1 env) string { return trCond(v.Y, e1, kt, kf) }, kf)
		case token.LOR:
			return trCond(v.X, en, kt, func(e1 env) string { return trCond(v.Y, e1, kt, kf) })
		case token.EQL, token.NEQ:
			if isNilIdent(v.X) || isNilIdent(v.Y) {
				pe := v.X
				if isNilIdent(v.X) {
					pe = v.Y
				}
				p := trExpr(pe, en)
				en = absorb(en)
				whenNil, whenSet := kt, kf
				if v.Op == token.NEQ {
					whenNil, whenSet = kf, kt
				}
				switch p.kd.k {
				case "nilptr":
					return whenNil(en)
				case "ptr", "status", "mresp", "oneof":
				default:
					fail(v.Pos(), "nil test of %s, which has kind %s", render(pe), p.kd)
				}
				if p.kd.nn {
					return whenSet(en)
				}
				if q, ok := errPairs[p.path]; ok {
					// the error of a (pointer, error) result pair: err == nil <=> pointer != nil
					p, whenNil, whenSet = q, whenSet, whenNil
				}
				if en.isNil[p.path] {
					return whenNil(en)
				}
				if _, ok := en.bound[p.path]; ok {
					return whenSet(en)
				}
				lets := takeLets()
				n := fresh(lastName(p.path))
				e1 := en.clone()
				e1.isNil[p.path] = true
				e2 := en.clone()
				e2.bound[p.path] = n
				return wrapLets(lets, fmt.Sprintf("(match %s with\n| none => %s\n| some %s => %s)", p.lean, whenNil(e1), n, whenSet(e2)))
			}
		}
	}
	if id, ok := e.(*ast.Ident); ok {
		if x, ok := en.vars[id.Name]; ok {
			if x.path == "const:true" {
				return kt(en)
			}
			if p, ok := okPairs[x.path]; ok {
				// the ok of a (pointer, ok) pair: true exactly when the pointer is non-nil
				if en.isNil[p.path] {
					return kf(en)
				}
				if _, b := en.bound[p.path]; b {
					return kt(en)
				}
				n := fresh(lastName(p.path))
				e1 := en.clone()
				e1.isNil[p.path] = true
				e2 := en.clone()
				e2.bound[p.path] = n
				return fmt.Sprintf("(match %s with\n| none => %s\n| some %s => %s)", p.lean, kf(e1), n, kt(e2))
			}
		}
	}
	var prop string
	if b, ok := e.(*ast.BinaryExpr); ok {
		prop = trProp(b, en)
	} else {
		prop = "(" + trBool(e, en) + " = true)"
	}
	en = absorb(en)
	lets := takeLets()
	return wrapLets(lets, fmt.Sprintf("(if %s then %s\nelse %s)", prop, kt(en), kf(en)))
}

func lastName(p string) string {
	i := strings.LastIndexAny(p, ".")
	s := p[i+1:]
	s = strings.Map(func(r rune) rune {
		if (r >= 'a' && r <= 'z') || (r >= 'A' && r <= 'Z') || (r >= '0' && r <= '9') {
			return r
		}
		return -1
	}, s)
	if s == "" {
		s = "p"
	}
	return strings.ToLower(s[:1]) + s[1:]
}

func takeLets() []string {
	l := pendingLets
	pendingLets = nil
	return l
}

func wrapLets(lets []string, body string) string {
	if len(lets) == 0 {
		return body
	}
	return "(" + strings.Join(lets, ";\n") + ";\n" + body + ")"
}

// ---------------------------------------------------------------- statements

func trBlock(list []ast.Stmt, en env, k cont) string {
	inner := en.push()
	// a block that only formats an error message before returning: translate the return alone
	if n := len(list); n > 1 {
		if r, ok := list[n-1].(*ast.ReturnStmt); ok && localOnly(list[:n-1], map[string]bool{}) {
			if _, isRet := list[0].(*ast.ReturnStmt); !isRet {
				return trStmts([]ast.Stmt{r}, inner, func(e env) string { return k(e.pop()) })
			}
		}
		// ... or before failing the test (t.Fatal / t.Fatalf of the formatted text)
		if es, ok := list[n-1].(*ast.ExprStmt); ok && cur != nil && cur.tbFatal {
			if c, ok := es.X.(*ast.CallExpr); ok && (render(c.Fun) == "t.Fatal" || render(c.Fun) == "t.Fatalf") {
				decl := map[string]bool{}
				if u, isAddr := firstBufferDecl(list[0]); isAddr != "" {
					decl[isAddr] = true
					_ = u
					if localOnly(list[1:n-1], decl) {
						return trStmts([]ast.Stmt{es}, inner, func(e env) string { return k(e.pop()) })
					}
				}
			}
		}
	}
	return trStmts(list, inner, func(e env) string { return k(e.pop()) })
}

// firstBufferDecl: `buf := &bytes.Buffer{}` — the name declared, or ""
func firstBufferDecl(st ast.Stmt) (ast.Stmt, string) {
	a, ok := st.(*ast.AssignStmt)
	if !ok || a.Tok != token.DEFINE || len(a.Lhs) != 1 || len(a.Rhs) != 1 {
		return nil, ""
	}
	if render(a.Rhs[0]) != "&bytes.Buffer{}" {
		return nil, ""
	}
	id, ok := a.Lhs[0].(*ast.Ident)
	if !ok {
		return nil, ""
	}
	return st, id.Name
}

// lockEffect: x.Lock() / x.RLock() takes x; x.Unlock() / x.RUnlock() releases it
func lockEffect(c *ast.CallExpr, en env, deferred bool) env {
	sel, ok := c.Fun.(*ast.SelectorExpr)
	if !ok {
		return en
	}
	m := render(sel.X)
	switch sel.Sel.Name {
	case "Lock", "RLock":
		if deferred {
			fail(c.Pos(), "deferred lock of %s", m)
		}
		e := en.clone()
		e.locks[m] = true
		e.held[m] = true
		return e
	case "Unlock", "RUnlock":
		e := en.clone()
		delete(e.locks, m)
		if !deferred {
			delete(e.held, m)
		}
		return e
	}
	return en
}

// requireHeld: the spec names mutexes that must be held wherever the function reads the state they
// guard or makes a recorded call (holdLocks); a path that does so without them fails the translation
func requireHeld(pos token.Pos, en env, what string) {
	if cur == nil {
		return
	}
	for _, m := range cur.holdLocks {
		if !en.held[m] {
			fail(pos, "%s without holding %s", what, m)
		}
	}
}

func heldLocks(en env) string {
	var l []string
	for k := range en.locks {
		l = append(l, k)
	}
	sort.Strings(l)
	return strings.Join(l, ", ")
}

func isSkippableCall(c *ast.CallExpr) bool {
	fn := render(c.Fun)
	if strings.HasPrefix(fn, "log.") || fn == "t.Helper" {
		return true
	}
	for _, s := range []string{".Lock", ".Unlock", ".RLock", ".RUnlock"} {
		if strings.HasSuffix(fn, s) {
			return true
		}
	}
	return false
}

func bindResult(en *env, name string, v val, define bool, pos token.Pos) {
	if name == "_" {
		return
	}
	switch v.kd.k {
	case "ptr", "status", "mresp", "nilptr", "oneof":
		// alias: nil knowledge travels with the path
	default:
		if v.path == "const:true" {
			// the constant of a declared precondition: tests of it are decided here
			break
		}
		n := fresh(name)
		if v.lean == "[]" {
			// an empty literal has no type of its own (it may never be used)
			pendingLets = append(pendingLets, fmt.Sprintf("let %s : %s := %s", n, leanType(v.kd), v.lean))
		} else {
			pendingLets = append(pendingLets, fmt.Sprintf("let %s := %s", n, v.lean))
		}
		v = val{lean: n, kd: v.kd, path: v.path}
	}
	if define {
		en.declare(name, v)
	} else {
		old, ok := en.vars[name]
		if !ok {
			fail(pos, "assignment to undeclared %s", name)
		}
		if old.kd.k == "any" && v.kd.k != "any" {
			// a value stored in an interface variable keeps its dynamic type
			switch v.kd.k {
			case "str":
				v = val{lean: "(AnyKey.str " + atom(v.lean) + ")", kd: old.kd}
			case "nat", "u64":
				v = val{lean: "(AnyKey.num " + atom(v.lean) + ")", kd: old.kd}
			default:
				fail(pos, "value of kind %s stored in an interface variable", v.kd)
			}
		}
		en.vars[name] = v
	}
}

// forkEntries: the map r is about to lose or replace entries (delete, m[k] = p, a call that may do
// either). A variable that holds a pointer read from the map earlier keeps pointing at the old
// struct, so what is known about it must no longer be tied to the map's entry: every path below
// r[..] held by a variable (or by an ok / err pair) moves to a fresh root, with what was known.
func forkEntries(en *env, r string) {
	pfx := r + "["
	roots := map[string]string{}
	split := func(p string) (string, string) {
		depth := 0
		for i := len(pfx) - 1; i < len(p); i++ {
			switch p[i] {
			case '[':
				depth++
			case ']':
				depth--
				if depth == 0 {
					return p[:i+1], p[i+1:]
				}
			}
		}
		return p, ""
	}
	move := func(old string) string {
		entry, rest := split(old)
		root, ok := roots[entry]
		if !ok {
			root = fresh("path")
			roots[entry] = root
			for k, b := range en.bound {
				if k == entry || strings.HasPrefix(k, entry+".") {
					en.bound[root+strings.TrimPrefix(k, entry)] = b
				}
			}
			for k, b := range en.isNil {
				if b && (k == entry || strings.HasPrefix(k, entry+".")) {
					en.isNil[root+strings.TrimPrefix(k, entry)] = true
				}
			}
		}
		return root + rest
	}
	for name, v := range en.vars {
		if strings.HasPrefix(v.path, pfx) {
			v.path = move(v.path)
			en.vars[name] = v
		}
	}
	for k, p := range okPairs {
		if strings.HasPrefix(p.path, pfx) {
			p.path = move(p.path)
			okPairs[k] = p
		}
	}
	for k, p := range errPairs {
		if strings.HasPrefix(p.path, pfx) {
			p.path = move(p.path)
			errPairs[k] = p
		}
	}
}

// mapUpdate: the state variable mexpr (a map) gets the binding key -> the struct newVal (a Lean
// term of the struct type); what was known about other entries of the map is forgotten
func mapUpdate(en *env, mexpr ast.Expr, key ast.Expr, newVal string, replaced bool, pos token.Pos) {
	r := render(mexpr)
	m, ok := en.vars[r]
	_, isLocal := mexpr.(*ast.Ident)
	if !ok || m.kd.k != "map" || cur == nil || !(cur.isState(r) || isLocal) {
		fail(pos, "update of %s, which is not a map-valued state field or local map", r)
	}
	if cur.isState(r) {
		requireHeld(pos, *en, "write of "+r)
	}
	if replaced {
		// m[k] = p: pointers read from the map before keep pointing at the old structs
		forkEntries(en, r)
	} else {
		// a write through a pointer held in the map: every holder of that pointer sees it; a
		// variable read with another key might hold the same pointer, which is not tracked
		entry := r + "[" + render(key) + "]"
		for name, v := range en.vars {
			if strings.HasPrefix(v.path, r+"[") && v.path != entry && !strings.HasPrefix(v.path, entry+".") {
				fail(pos, "write through %s while %s holds a pointer read from the same map with another key", entry, name)
			}
		}
	}
	k := trExpr(key, *en)
	n := fresh(lastName(r))
	vn := fresh("entry")
	pendingLets = append(pendingLets, fmt.Sprintf("let %s : %s := %s", vn, leanStruct[m.kd.s], newVal))
	pendingLets = append(pendingLets, fmt.Sprintf("let %s := Map.insert %s %s %s", n, atom(m.lean), atom(k.lean), vn))
	en.vars[r] = val{lean: n, kd: m.kd, path: m.path}
	pfx := r + "["
	for p := range en.bound {
		if strings.HasPrefix(p, pfx) {
			delete(en.bound, p)
		}
	}
	for p := range en.isNil {
		if strings.HasPrefix(p, pfx) {
			delete(en.isNil, p)
		}
	}
	en.bound[r+"["+render(key)+"]"] = vn
}

func trAssign(a *ast.AssignStmt, en env) env {
	en = en.clone()
	// v, ok := m[k]
	if len(a.Lhs) == 2 && len(a.Rhs) == 1 {
		if ix, ok := a.Rhs[0].(*ast.IndexExpr); ok {
			p := trExpr(ix, en)
			if p.kd.k == "bool" {
				// _, ok := set[k]: presence (every value of the map is true)
				if id, isId := a.Lhs[0].(*ast.Ident); !isId || id.Name != "_" {
					fail(a.Pos(), "value of a set element")
				}
				bindResult(&en, a.Lhs[1].(*ast.Ident).Name, p, a.Tok == token.DEFINE, a.Pos())
				return en
			}
			okv := val{lean: "(" + atom(p.lean) + ".isSome)", kd: kBool, path: "okof:" + p.path}
			okPairs[okv.path] = p
			define := a.Tok == token.DEFINE
			bindResult(&en, a.Lhs[0].(*ast.Ident).Name, p, define, a.Pos())
			bindResult(&en, a.Lhs[1].(*ast.Ident).Name, okv, define, a.Pos())
			return en
		}
	}
	if len(a.Lhs) == 2 && len(a.Rhs) == 1 {
		if ta, ok := a.Rhs[0].(*ast.TypeAssertExpr); ok && cur != nil {
			// _, ok := x.(T): whether x has dynamic type T is an oracle named in the specification
			if ce, ok := ta.X.(*ast.CallExpr); ok {
				if sel, ok := ce.Fun.(*ast.SelectorExpr); ok {
					if fname, ok := cur.assertFields[sel.Sel.Name+"().("+render(ta.Type)+")"]; ok {
						// x.GetF().(*T): whether the oneof F of x holds member T is a field of x's representation
						if id, isId := a.Lhs[0].(*ast.Ident); !isId || id.Name != "_" {
							fail(a.Pos(), "type assertion %s", render(ta))
						}
						getter := &ast.CallExpr{Fun: &ast.SelectorExpr{X: sel.X, Sel: &ast.Ident{Name: "Get" + fname, NamePos: sel.Sel.Pos()}}, Lparen: ce.Lparen, Rparen: ce.Rparen}
						vs := trCall(getter, en)
						bindResult(&en, a.Lhs[1].(*ast.Ident).Name, vs[0], a.Tok == token.DEFINE, a.Pos())
						return en
					}
				}
			}
			if fname, ok := cur.assertBoolFields[render(ta)]; ok {
				// _, ok := x.(*T): whether the interface value x holds a *T is a Boolean field of x's representation
				if id, isId := a.Lhs[0].(*ast.Ident); !isId || id.Name != "_" {
					fail(a.Pos(), "type assertion %s", render(ta))
				}
				x := trExpr(ta.X, en)
				bindResult(&en, a.Lhs[1].(*ast.Ident).Name, selectField(x, fname, en, a.Pos()), a.Tok == token.DEFINE, a.Pos())
				return en
			}
			if fname, ok := cur.assertPtrFields[render(ta)]; ok {
				// v, ok := x.(*T) of an interface value x represented by a struct: what x holds when
				// its dynamic type is *T is a pointer field of the representation (nil otherwise, and
				// for a nil x); ok is true exactly when that pointer is not nil
				x := trExpr(ta.X, en)
				if x.kd.k != "ptr" {
					fail(a.Pos(), "type assertion on a value of kind %s", x.kd)
				}
				f := fieldOf(x.kd.s, fname, a.Pos())
				var p val
				if b, bound := en.bound[x.path]; bound {
					p = val{lean: b + "." + f.lean, kd: f.kd, path: x.path + "." + fname}
				} else if en.isNil[x.path] {
					p = val{lean: "none", kd: f.kd, path: x.path + "." + fname}
					en.isNil[p.path] = true
				} else {
					p = val{lean: "(" + atom(x.lean) + ".bind (fun v => v." + f.lean + "))", kd: f.kd, path: x.path + "." + fname}
				}
				okv := val{lean: "(" + atom(p.lean) + ".isSome)", kd: kBool, path: "okof:" + p.path}
				okPairs[okv.path] = p
				define := a.Tok == token.DEFINE
				bindResult(&en, a.Lhs[0].(*ast.Ident).Name, p, define, a.Pos())
				bindResult(&en, a.Lhs[1].(*ast.Ident).Name, okv, define, a.Pos())
				return en
			}
			pn, known := cur.subst[render(ta)]
			if id, isId := a.Lhs[0].(*ast.Ident); !known || !isId || id.Name != "_" {
				fail(a.Pos(), "type assertion %s", render(ta))
			}
			bindResult(&en, a.Lhs[1].(*ast.Ident).Name, en.vars[pn], a.Tok == token.DEFINE, a.Pos())
			return en
		}
	}
	if len(a.Lhs) == 1 && len(a.Rhs) == 1 {
		if fl, ok := a.Rhs[0].(*ast.FuncLit); ok {
			id, ok := a.Lhs[0].(*ast.Ident)
			if !ok || a.Tok != token.DEFINE {
				fail(a.Pos(), "function literal assigned to something other than a new name")
			}
			en.closures[id.Name] = fl
			return en
		}
	}
	define := a.Tok == token.DEFINE
	if a.Tok != token.DEFINE && a.Tok != token.ASSIGN {
		fail(a.Pos(), "assignment operator %s", a.Tok)
	}
	var vals []val
	if len(a.Rhs) == 1 && len(a.Lhs) > 1 {
		c, ok := a.Rhs[0].(*ast.CallExpr)
		if !ok {
			fail(a.Pos(), "multi-value assignment from a non-call")
		}
		vals = trCall(c, en)
		en = absorb(en)
	} else {
		if len(a.Rhs) != len(a.Lhs) {
			fail(a.Pos(), "unbalanced assignment")
		}
		for _, r := range a.Rhs {
			vals = append(vals, trExpr(r, en))
			en = absorb(en)
		}
	}
	if len(vals) != len(a.Lhs) {
		fail(a.Pos(), "assignment of %d values to %d names", len(vals), len(a.Lhs))
	}
	for i, l := range a.Lhs {
		switch lv := l.(type) {
		case *ast.Ident:
			bindResult(&en, lv.Name, vals[i], define, a.Pos())
		case *ast.SelectorExpr:
			r := render(lv)
			if cur != nil && cur.isState(r) {
				requireHeld(a.Pos(), en, "write of "+r)
				en.vars[r] = vals[i]
				break
			}
			if ix, ok := lv.X.(*ast.IndexExpr); ok {
				// m[k].f = v : the entry of the map is replaced by a copy with the field changed
				if mv, isMap := en.vars[render(ix.X)]; isMap && mv.kd.k == "map" {
					b, bound := en.bound[render(ix)]
					if !bound {
						fail(a.Pos(), "assignment through %s, which may be nil", render(ix))
					}
					f := fieldOf(mv.kd.s, lv.Sel.Name, a.Pos())
					nv := vals[i].lean
					if f.kd.nn {
						vb, ok := en.bound[vals[i].path]
						if !ok {
							fail(a.Pos(), "the value stored in %s must be non-nil", r)
						}
						nv = vb
					}
					mapUpdate(&en, ix.X, ix.Index, "{ "+b+" with "+f.lean+" := "+nv+" }", false, a.Pos())
					break
				}
			}
			if id, ok := lv.X.(*ast.Ident); ok {
				if x, ok := en.vars[id.Name]; ok && x.kd.k == "ptr" {
					if ix, isEntry := mapEntryExprs[x.path]; isEntry {
						// the pointer was read from a map of pointers: the assignment changes the entry
						b, bound := en.bound[x.path]
						if !bound {
							fail(a.Pos(), "assignment through %s, which may be nil", id.Name)
						}
						f := fieldOf(x.kd.s, lv.Sel.Name, a.Pos())
						mapUpdate(&en, ix.X, ix.Index, "{ "+b+" with "+f.lean+" := "+vals[i].lean+" }", false, a.Pos())
						break
					}
					fieldOf(x.kd.s, lv.Sel.Name, a.Pos())
					if x.path != "" {
						for other, ov := range en.vars {
							if other != id.Name && !strings.HasPrefix(other, "§") && ov.kd.k == "ptr" && ov.path == x.path {
								// y := x; x.f = v: Go changes what y points at too; the translation keeps
								// assigned fields per variable
								fail(a.Pos(), "assignment through %s while %s holds the same pointer", id.Name, other)
							}
						}
					}
					v := vals[i]
					switch v.kd.k {
					case "ptr", "status", "mresp", "oneof", "nilptr":
					default:
						n := fresh(lv.Sel.Name)
						pendingLets = append(pendingLets, fmt.Sprintf("let %s := %s", n, v.lean))
						v = val{lean: n, kd: v.kd, path: v.path}
					}
					en.vars[id.Name] = x.withOver(lv.Sel.Name, v)
					break
				}
			}
			if cur != nil && cur.builder {
				// i.pb.F = v, i.pb.G.F = v: a field of the builder's protobuf (the pointers on the
				// way are set by the constructor and never nil: declared so in the schema)
				var chain []string
				var root ast.Expr = lv
				for {
					se, ok := root.(*ast.SelectorExpr)
					if !ok || cur.isState(render(root)) {
						break
					}
					chain = append([]string{se.Sel.Name}, chain...)
					root = se.X
				}
				if cur.isState(render(root)) && len(chain) > 0 {
					rv := en.vars[render(root)]
					if rv.kd.k != "ptr" || !rv.kd.nn {
						fail(a.Pos(), "assignment below %s of kind %s", render(root), rv.kd)
					}
					// the structs on the way, outermost first; a pointer on the way that may be nil
					// must be known non-nil on this path (the method allocated it, or tested it)
					exprs := []string{atom(rv.lean)}
					snames := []string{rv.kd.s}
					nullable := []bool{false}
					paths := []string{rv.path}
					sname := rv.kd.s
					var leaf field
					for j, fn := range chain {
						f := fieldOf(sname, fn, a.Pos())
						if j == len(chain)-1 {
							leaf = f
							break
						}
						if f.kd.k != "ptr" {
							fail(a.Pos(), "assignment through %s.%s of kind %s", sname, fn, f.kd)
						}
						pth := paths[len(paths)-1] + "." + fn
						if f.kd.nn {
							exprs = append(exprs, exprs[len(exprs)-1]+"."+f.lean)
						} else {
							b, ok := en.bound[pth]
							if !ok {
								fail(a.Pos(), "assignment through %s, which may be nil", pth)
							}
							exprs = append(exprs, b)
						}
						nullable = append(nullable, !f.kd.nn)
						paths = append(paths, pth)
						sname = f.kd.s
						snames = append(snames, sname)
					}
					leafPath := paths[len(paths)-1] + "." + chain[len(chain)-1]
					nv := vals[i].lean
					switch {
					case leaf.kd.k == "ptr" && leaf.kd.nn:
						fail(a.Pos(), "assignment to %s, a pointer the schema declares fixed", r)
					case leaf.kd.k == "ptr":
						if vals[i].kd.k != "nilptr" && (vals[i].kd.k != "ptr" || vals[i].kd.s != leaf.kd.s) {
							fail(a.Pos(), "assignment of %s to %s", vals[i].kd, r)
						}
					case leaf.kd.k == "oneof":
						if vals[i].kd.k != "nilptr" && (vals[i].kd.k != "oneof" || vals[i].kd.s != leaf.kd.s) {
							fail(a.Pos(), "assignment of %s to %s", vals[i].kd, r)
						}
					case leaf.kd.k == "list":
						if vals[i].kd.k != "list" || vals[i].kd.s != leaf.kd.s {
							fail(a.Pos(), "assignment of %s to %s", vals[i].kd, r)
						}
					default:
						if vals[i].kd.k != leaf.kd.k && !(leaf.kd.k == "nat" && (vals[i].kd.k == "u64" || vals[i].kd.k == "enum")) && !(leaf.kd.k == "enum" && vals[i].kd.k == "nat") {
							fail(a.Pos(), "assignment of %s to %s of kind %s", vals[i].kd, r, leaf.kd)
						}
					}
					// what was known about places below the assigned one is about the old value
					for k := range en.bound {
						if k == leafPath || strings.HasPrefix(k, leafPath+".") {
							delete(en.bound, k)
						}
					}
					for k := range en.isNil {
						if k == leafPath || strings.HasPrefix(k, leafPath+".") {
							delete(en.isNil, k)
						}
					}
					if leaf.kd.k == "ptr" {
						if b, ok := en.bound[vals[i].path]; ok {
							en.bound[leafPath] = b
						} else if vals[i].kd.k == "nilptr" || en.isNil[vals[i].path] {
							en.isNil[leafPath] = true
						}
					}
					upd := nv
					for j := len(chain) - 1; j >= 0; j-- {
						f := fieldOf(snames[j], chain[j], a.Pos())
						upd = "{ " + exprs[j] + " with " + f.lean + " := " + upd + " }"
						if j > 0 && nullable[j] {
							// the changed struct one level up, behind a pointer that may be nil: named,
							// so that later reads on this path see it
							nm := fresh(strings.ToLower(chain[j-1]))
							pendingLets = append(pendingLets, fmt.Sprintf("let %s : %s := %s", nm, leanStruct[snames[j]], upd))
							en.bound[paths[j]] = nm
							upd = "(some " + nm + ")"
						}
					}
					n := fresh("pb")
					pendingLets = append(pendingLets, fmt.Sprintf("let %s : %s := %s", n, leanStruct[rv.kd.s], upd))
					en.vars[render(root)] = val{lean: n, kd: rv.kd, path: rv.path}
					break
				}
			}
			fail(a.Pos(), "assignment to %s, which is neither a declared state field nor a field of a local struct", r)
		case *ast.StarExpr:
			r := render(lv)
			if cur == nil || !cur.isState(r) {
				fail(a.Pos(), "assignment through %s, which is not a declared state field", r)
			}
			en.vars[r] = vals[i]
		case *ast.IndexExpr:
			if sel, ok := lv.X.(*ast.SelectorExpr); ok {
				if id, ok := sel.X.(*ast.Ident); ok {
					if x, ok := en.vars[id.Name]; ok && x.kd.k == "ptr" {
						if ix, isEntry := mapEntryExprs[x.path]; isEntry {
							// p.f[k] = v where p was read from a map of pointers and f is a map field:
							// the entry of the outer map is replaced by a copy with f updated
							b, bound := en.bound[x.path]
							if !bound {
								fail(a.Pos(), "assignment through %s, which may be nil", id.Name)
							}
							f := fieldOf(x.kd.s, sel.Sel.Name, a.Pos())
							v := vals[i]
							vb, vbound := en.bound[v.path]
							if f.kd.k != "map" || v.kd.k != "ptr" || v.kd.s != f.kd.s || !vbound {
								fail(a.Pos(), "the value stored in %s must be a non-nil pointer to %s", render(l), f.kd.s)
							}
							k := trExpr(lv.Index, en)
							mapUpdate(&en, ix.X, ix.Index, "{ "+b+" with "+f.lean+" := Map.insert "+b+"."+f.lean+" "+atom(k.lean)+" "+vb+" }", false, a.Pos())
							break
						}
					}
				}
			}
			if mv, isMap := en.vars[render(lv.X)]; isMap && mv.kd.k == "map" {
				v := vals[i]
				b, bound := en.bound[v.path]
				if v.kd.k == "ptr" && v.kd.nn && !bound {
					// a pointer that is never nil is represented by the struct itself
					b, bound = v.lean, true
				}
				if v.kd.k != "ptr" || v.kd.s != mv.kd.s || !bound {
					fail(a.Pos(), "the value stored in %s must be a non-nil pointer to %s", render(l), mv.kd.s)
				}
				mapUpdate(&en, lv.X, lv.Index, b, true, a.Pos())
				break
			}
			x, ok2 := en.vars[render(lv.X)]
			if !ok2 || x.kd.k != "set" || render(a.Rhs[i]) != "true" {
				fail(a.Pos(), "assignment to %s", render(l))
			}
			k := trExpr(lv.Index, en)
			if x.kd.s == "String" {
				// a Go map has each key once (the set is ranged over later)
				en.vars[render(lv.X)] = val{lean: "(if " + atom(x.lean) + ".contains " + atom(k.lean) + " then " + atom(x.lean) + " else " + atom(x.lean) + " ++ [" + k.lean + "])", kd: x.kd, path: x.path}
				break
			}
			en.vars[render(lv.X)] = val{lean: "(" + k.lean + " :: " + x.lean + ")", kd: x.kd, path: x.path}
		default:
			fail(a.Pos(), "assignment to %s", render(l))
		}
	}
	return en
}

// ---- join points
//
// The translation is in continuation-passing style: the code after an `if` or `switch` is
// translated once per path through it. For a function with several consecutive branching
// statements that multiplies; with `joins` set in its specification, the code after a branching
// statement becomes one local function (`let rec joinN`, which Lean lifts like the loops) whose
// parameters are the outer places the statement assigns, and every path through the statement
// ends in a call of it. What the statement learnt about nil-ness of those places is not passed
// on; if the rest needs it the attempt fails and the statement is translated by duplication.

var joinIndex int
var inJoinAttempt = map[ast.Stmt]bool{}

func endsInReturn(list []ast.Stmt) bool {
	if len(list) == 0 {
		return false
	}
	_, ok := list[len(list)-1].(*ast.ReturnStmt)
	return ok
}

func hasBranching(list []ast.Stmt) bool {
	found := false
	for _, st := range list {
		ast.Inspect(st, func(n ast.Node) bool {
			switch n.(type) {
			case *ast.IfStmt, *ast.SwitchStmt, *ast.TypeSwitchStmt, *ast.RangeStmt:
				found = true
			}
			return !found
		})
	}
	return found
}

func wantsJoin(s ast.Stmt, rest []ast.Stmt) bool {
	if len(rest) == 0 || !hasBranching(rest) {
		return false
	}
	switch v := s.(type) {
	case *ast.IfStmt:
		if v.Else == nil && endsInReturn(v.Body.List) {
			return false
		}
		return true
	case *ast.SwitchStmt, *ast.TypeSwitchStmt:
		return true
	}
	return false
}

func tryJoin(s ast.Stmt, rest []ast.Stmt, en env, k cont) (out string, ok bool) {
	savedLets, savedCounter, savedLoop, savedJoin := append([]string{}, pendingLets...), counter, loopIndex, joinIndex
	savedEffs, savedEffBase := append([]string{}, oracleEffects...), pendingEffBase
	savedState := map[string]val{}
	for a, b := range pendingState {
		savedState[a] = b
	}
	defer func() {
		if r := recover(); r != nil {
			if _, isT := r.(terr); !isT {
				panic(r)
			}
			pendingLets, counter, loopIndex, joinIndex = savedLets, savedCounter, savedLoop, savedJoin
			oracleEffects, pendingEffBase, pendingState = savedEffs, savedEffBase, savedState
			delete(inJoinAttempt, s)
			out, ok = "", false
		}
	}()
	lets := takeLets()
	places := loopState([]ast.Stmt{s}, en)
	// first pass: which pointer-valued places are non-nil on every path that reaches the join
	nonNil := map[string]bool{}
	reached := false
	func() {
		c0, l0, j0 := counter, loopIndex, joinIndex
		p0 := append([]string{}, pendingLets...)
		defer func() {
			counter, loopIndex, joinIndex = c0, l0, j0
			pendingLets = p0
			oracleEffects, pendingEffBase = append([]string{}, savedEffs...), savedEffBase
			pendingState = map[string]val{}
			for a, b := range savedState {
				pendingState[a] = b
			}
			delete(inJoinAttempt, s)
			if r := recover(); r != nil {
				if _, isT := r.(terr); !isT {
					panic(r)
				}
				reached = false
			}
		}()
		inJoinAttempt[s] = true
		trStmts([]ast.Stmt{s}, en.clone(), func(e env) string {
			for _, p := range places {
				x := e.vars[p]
				if x.kd.k != "ptr" || x.kd.nn {
					continue
				}
				_, b := e.bound[x.path]
				if !reached {
					nonNil[p] = b
				} else {
					nonNil[p] = nonNil[p] && b
				}
			}
			reached = true
			takeLets()
			return "()"
		})
	}()
	if !reached {
		return "", false
	}
	joinIndex++
	name := fmt.Sprintf("join%d", joinIndex)
	var binders, types []string
	e0 := en.clone()
	for _, p := range places {
		x := materialise(e0.vars[p], e0, s.Pos())
		lets = append(lets, takeLets()...)
		e0.vars[p] = x
		binders = append(binders, fresh(lastName(p)))
		if nonNil[p] {
			types = append(types, atom2(leanStruct[x.kd.s]))
		} else {
			types = append(types, atom2(leanType(x.kd)))
		}
	}
	effName := ""
	if cur.effects {
		effName = fresh("effs")
		binders = append(binders, effName)
		types = append(types, "(List Eff)")
	}
	if len(binders) == 0 {
		// nothing to pass: a function of a unit argument
		binders = append(binders, "_u")
		types = append(types, "Unit")
	}
	restEnv := e0.clone()
	for i, p := range places {
		x := e0.vars[p]
		nv := val{lean: binders[i], kd: x.kd, path: fresh("path")}
		if nonNil[p] {
			restEnv.bound[nv.path] = binders[i]
			nv.lean = "(some " + binders[i] + ")"
		}
		if cur.isState(p) {
			nv.path = x.path
			if x.kd.k == "map" {
				forkEntries(&restEnv, p)
				for q := range restEnv.bound {
					if strings.HasPrefix(q, p+"[") {
						delete(restEnv.bound, q)
					}
				}
				for q := range restEnv.isNil {
					if strings.HasPrefix(q, p+"[") {
						delete(restEnv.isNil, q)
					}
				}
			}
		}
		restEnv.vars[p] = nv
	}
	if effName != "" {
		restEnv.effBase, restEnv.effects = effName, nil
	}
	tail := trStmts(rest, restEnv, k)
	inJoinAttempt[s] = true
	body := trStmts([]ast.Stmt{s}, e0, func(e env) string {
		if heldLocks(e) != heldLocks(e0) {
			fail(s.Pos(), "the locks held differ between the paths through this statement")
		}
		var args []string
		e = e.clone()
		for _, p := range places {
			x := materialise(e.vars[p], e, s.Pos())
			if nonNil[p] {
				b, ok := e.bound[x.path]
				if !ok {
					fail(s.Pos(), "%s may be nil on a path into the join", p)
				}
				args = append(args, atom(b))
				continue
			}
			args = append(args, atom(x.lean))
		}
		if effName != "" {
			args = append(args, atom(effsExpr(e)))
		}
		if len(args) == 0 {
			args = append(args, "()")
		}
		ls := takeLets()
		return wrapLets(ls, "("+name+" "+strings.Join(args, " ")+")")
	})
	delete(inJoinAttempt, s)
	sig := strings.Join(types, " → ") + " → " + atom2(currentResultType())
	def := fmt.Sprintf("let rec %s : %s := fun %s => (%s)", name, sig, strings.Join(binders, " "), tail)
	return wrapLets(lets, "("+def+";\n"+body+")"), true
}

func trStmts(list []ast.Stmt, en env, k cont) string {
	if len(list) == 0 {
		return k(en)
	}
	s, rest := list[0], list[1:]
	next := func(e env) string { return trStmts(rest, e, k) }
	if cur != nil && cur.joins && !inJoinAttempt[s] && wantsJoin(s, rest) {
		if out, ok := tryJoin(s, rest, en, k); ok {
			return out
		}
	}
	switch v := s.(type) {
	case *ast.SelectStmt:
		return trSelect(v, en, next)
	case *ast.ReturnStmt:
		if returnHook != nil {
			return returnHook(v, en)
		}
		if cur != nil && cur.loop {
			fail(v.Pos(), "return in the receive loop that does not follow a send on errCh")
		}
		return trReturn(v, en)
	case *ast.ExprStmt:
		if c, ok := v.X.(*ast.CallExpr); ok {
			if isSkippableCall(c) {
				return next(lockEffect(c, en, false))
			}
			if render(c.Fun) == "sort.Strings" && len(c.Args) == 1 {
				// sorts the slice in place: the local variable holds the sorted list from here on
				id, ok := c.Args[0].(*ast.Ident)
				x, ok2 := en.vars[render(c.Args[0])]
				if !ok || !ok2 || x.kd.k != "list" || x.kd.s != "String" {
					fail(c.Pos(), "sort.Strings of %s", render(c.Args[0]))
				}
				e1 := en.clone()
				n := fresh(id.Name)
				lets := append(takeLets(), fmt.Sprintf("let %s := sortStrings %s", n, atom(x.lean)))
				e1.vars[id.Name] = val{lean: n, kd: x.kd, path: x.path}
				return wrapLets(lets, next(e1))
			}
			if render(c.Fun) == "delete" && len(c.Args) == 2 {
				r := render(c.Args[0])
				m, ok := en.vars[r]
				if !ok || m.kd.k != "map" || !cur.isState(r) {
					fail(c.Pos(), "delete from %s", r)
				}
				requireHeld(c.Pos(), en, "delete from "+r)
				k := trExpr(c.Args[1], en)
				e1 := en.clone()
				forkEntries(&e1, r)
				n := fresh(lastName(r))
				lets := append(takeLets(), fmt.Sprintf("let %s := Map.erase %s %s", n, atom(m.lean), atom(k.lean)))
				e1.vars[r] = val{lean: n, kd: m.kd, path: m.path}
				for p := range e1.bound {
					if strings.HasPrefix(p, r+"[") {
						delete(e1.bound, p)
					}
				}
				e1.isNil[r+"["+render(c.Args[1])+"]"] = true
				if cur.deleteEff != "" && cur.effects {
					// the removal is also recorded among the effects, so that its place in their order is visible
					e1.effects = append(e1.effects, "(Eff."+strings.Replace(cur.deleteEff, ":", " ", 1)+")")
				}
				return wrapLets(lets, next(e1))
			}
			if sel, ok := c.Fun.(*ast.SelectorExpr); ok && sel.Sel.Name == "Add" && len(c.Args) == 1 && cur != nil && cur.isState(render(sel.X)) {
				// an atomic counter held in the state: x.Add(n)
				if x := en.vars[render(sel.X)]; x.kd.k == "nat" {
					n := trExpr(c.Args[0], en)
					e1 := en.clone()
					nn := fresh(lastName(render(sel.X)))
					lets := append(takeLets(), fmt.Sprintf("let %s := %s + %s", nn, atom(x.lean), atom(n.lean)))
					e1.vars[render(sel.X)] = val{lean: nn, kd: kNat, path: x.path}
					return wrapLets(lets, next(e1))
				}
			}
			if cur != nil && cur.fatalNil {
				if fn := render(c.Fun); fn == "t.Fatalf" || fn == "t.Fatal" {
					// the test is failed and its goroutine ends: the caller never sees a result (none)
					return wrapResult("none")
				}
			}
			if cur != nil && cur.tbFatal {
				fn := render(c.Fun)
				if fn == "t.Fatalf" || fn == "t.Fatal" {
					// the test is failed and its goroutine ends: the function reports failure
					return tbResult(en, "false")
				}
				if o, ok := cur.oracles[fn]; ok && o.fatalIfFalse {
					// a helper that fails the test itself: nothing after it runs when it does
					vs := trCall(c, en)
					e1 := absorb(en)
					lets := takeLets()
					return wrapLets(lets, "(if "+atom(vs[0].lean)+" = true then "+next(e1)+"\nelse "+tbResult(e1, "false")+")")
				}
			}
			trCall(c, en) // oracle with an effect, results discarded
			e1 := absorb(en)
			lets := takeLets()
			return wrapLets(lets, next(e1))
		}
		fail(v.Pos(), "expression statement %s", render(v.X))
	case *ast.SendStmt:
		if cur != nil && cur.errChan && render(v.Chan) == "errCh" {
			// the error is handed to the RPC handler; the function goes on (unless it returns)
			e := trRetVal(v.Value, "err", en)
			e1 := absorb(en).clone()
			e1.effects = append(e1.effects, "(Eff.sendErr "+atom(e)+")")
			lets := takeLets()
			return wrapLets(lets, next(e1))
		}
		if cur != nil && cur.errChan && render(v.Chan) == "resCh" {
			x := trRetVal(v.Value, "mresp", en)
			e1 := absorb(en).clone()
			e1.effects = append(e1.effects, "(Eff.send "+atom(x)+")")
			lets := takeLets()
			return wrapLets(lets, next(e1))
		}
		if cur == nil || !cur.loop {
			fail(v.Pos(), "channel send")
		}
		switch render(v.Chan) {
		case "errCh":
			// the receive loop ends the RPC: errCh <- e; return
			if len(rest) == 0 {
				fail(v.Pos(), "send on errCh that is not followed by return")
			}
			if r, ok := rest[0].(*ast.ReturnStmt); !ok || len(r.Results) != 0 {
				fail(v.Pos(), "send on errCh that is not followed by return")
			}
			e := trRetVal(v.Value, "err", en)
			e1 := absorb(en)
			lets := takeLets()
			return wrapLets(lets, "(LoopOut.term "+atom(e)+" "+effsExpr(e1)+")")
		case "resultChan":
			x := trRetVal(v.Value, "mresp", en)
			e1 := absorb(en).clone()
			e1.effects = append(e1.effects, "(Eff.send "+atom(x)+")")
			lets := takeLets()
			return wrapLets(lets, next(e1))
		}
		fail(v.Pos(), "send on channel %s", render(v.Chan))
	case *ast.DeferStmt:
		if isSkippableCall(v.Call) {
			return next(lockEffect(v.Call, en, true))
		}
		if fl, ok := v.Call.Fun.(*ast.FuncLit); ok && cur != nil && cur.errChan && len(fl.Body.List) == 1 {
			// defer func() { doneCh <- struct{}{} }(): the completion signal, sent on every path
			if snd, ok := fl.Body.List[0].(*ast.SendStmt); ok && render(snd.Chan) == "doneCh" {
				return next(en)
			}
		}
		fail(v.Pos(), "defer of %s", render(v.Call.Fun))
	case *ast.DeclStmt:
		gd, ok := v.Decl.(*ast.GenDecl)
		if ok && gd.Tok == token.TYPE {
			// a local struct type: its fields must be the ones of the schema of the same name
			for _, sp := range gd.Specs {
				ts := sp.(*ast.TypeSpec)
				st, isStruct := ts.Type.(*ast.StructType)
				fs, known := schemas[ts.Name.Name]
				if !isStruct || !known {
					fail(v.Pos(), "local type %s", ts.Name.Name)
				}
				var got, want []string
				for _, fl := range st.Fields.List {
					for _, n := range fl.Names {
						got = append(got, n.Name)
					}
				}
				for _, f := range fs {
					want = append(want, f.goName)
				}
				if strings.Join(got, ",") != strings.Join(want, ",") {
					fail(v.Pos(), "local type %s has fields {%s}, the translator's schema says {%s}", ts.Name.Name, strings.Join(got, ","), strings.Join(want, ","))
				}
			}
			return next(en)
		}
		if !ok || gd.Tok != token.VAR {
			fail(v.Pos(), "declaration")
		}
		e1 := en.clone()
		for _, sp := range gd.Specs {
			vs := sp.(*ast.ValueSpec)
			if len(vs.Values) != 0 {
				fail(v.Pos(), "var with initialiser")
			}
			t := render(vs.Type)
			for _, n := range vs.Names {
				switch t {
				case "error":
					p := fresh("path")
					e1.isNil[p] = true
					e1.declare(n.Name, val{lean: "none", kd: kind{k: "status"}, path: p})
				case "bool":
					e1.declare(n.Name, val{lean: "false", kd: kBool})
				case "int":
					// a counter: it starts at 0 and the subset has no subtraction on it
					e1.declare(n.Name, val{lean: "(0 : Nat)", kd: kNat})
				case "*spb.ModifyResponse":
					p := fresh("path")
					e1.isNil[p] = true
					e1.declare(n.Name, val{lean: "none", kd: kind{k: "mresp"}, path: p})
				case "[]*rib.OpResult":
					e1.declare(n.Name, val{lean: "[]", kd: kind{k: "list", s: "OpResult"}})
				case "string":
					e1.declare(n.Name, val{lean: `""`, kd: kStr})
				case "uint64":
					e1.declare(n.Name, val{lean: "(0 : Nat)", kd: kNat})
				case "constants.AFT", "constants.OpType":
					e1.declare(n.Name, val{lean: "(0 : Nat)", kd: kEnum})
				case "any":
					e1.declare(n.Name, val{lean: "AnyKey.none", kd: kind{k: "any"}})
				case "[]*OpResult":
					name := "OpResult"
					if a, ok := cur.typeMap[name]; ok {
						name = a
					}
					e1.declare(n.Name, val{lean: "[]", kd: kind{k: "list", s: name, elemNN: true}})
				case "*aft.Afts_Ipv4Entry", "*aft.Afts_Ipv6Entry", "*aft.Afts_LabelEntry", "*aft.Afts_NextHopGroup", "*aft.Afts_NextHop":
					if cur != nil && cur.typeMap["installed"] != "" {
						// the installed entry is opaque to this function
						p := fresh("path")
						e1.isNil[p] = true
						e1.declare(n.Name, val{lean: "none", kd: kPtr(cur.typeMap["installed"]), path: p})
						break
					}
					sch := "OrigTop"
					if t == "*aft.Afts_NextHopGroup" {
						sch = "OrigNHG"
					}
					p := fresh("path")
					e1.isNil[p] = true
					e1.declare(n.Name, val{lean: "none", kd: kPtr(sch), path: p})
				default:
					fail(v.Pos(), "var of type %s", t)
				}
			}
		}
		return next(e1)
	case *ast.AssignStmt:
		e1 := trAssign(v, en)
		lets := takeLets()
		if cur != nil && cur.tbFatal && len(v.Lhs) == 1 && len(v.Rhs) == 1 {
			if c, ok := v.Rhs[0].(*ast.CallExpr); ok {
				for i := range specs {
					if specs[i].callAs == render(c.Fun) && specs[i].fatalNil {
						// a helper that fails the test itself and then does not return: nothing after
						// the call runs; its generated definition says so by returning none
						test := &ast.BinaryExpr{X: v.Lhs[0], Op: token.NEQ, OpPos: v.Pos(), Y: &ast.Ident{Name: "nil", NamePos: v.Pos()}}
						return wrapLets(lets, trCond(test, e1, next, func(e env) string { return tbResult(e, "false") }))
					}
				}
			}
		}
		return wrapLets(lets, next(e1))
	case *ast.BlockStmt:
		return trBlock(v.List, en, next)
	case *ast.RangeStmt:
		if needsGeneralLoop(v.Body.List) {
			if cur != nil && cur.valueLoops {
				return trLoopV(v, en, next)
			}
			return trLoop(v, en, next)
		}
		return trRange(v, en, next)
	case *ast.IncDecStmt:
		if ix, ok := v.X.(*ast.IndexExpr); ok {
			r := render(ix.X)
			if m, ok := en.vars[r]; ok && m.kd.k == "map" && m.kd.s == "Nat" && cur != nil && cur.isState(r) {
				// m[k]++ / m[k]-- on a map of uint64 counters: unsigned 64-bit arithmetic (wraps)
				k := trExpr(ix.Index, en)
				old := "((Map.get? " + atom(m.lean) + " " + atom(k.lean) + ").getD 0)"
				op := "incU64"
				if v.Tok == token.DEC {
					op = "decU64"
				}
				n := fresh(lastName(r))
				e1 := absorb(en).clone()
				pendingLets = append(pendingLets, fmt.Sprintf("let %s := Map.insert %s %s (%s %s)", n, atom(m.lean), atom(k.lean), op, old))
				e1.vars[r] = val{lean: n, kd: m.kd, path: m.path}
				lets := takeLets()
				return wrapLets(lets, next(e1))
			}
		}
		if v.Tok != token.INC {
			fail(v.Pos(), "decrement")
		}
		as := &ast.AssignStmt{Lhs: []ast.Expr{v.X}, Tok: token.ASSIGN, TokPos: v.Pos(), Rhs: []ast.Expr{&ast.BinaryExpr{X: v.X, Op: token.ADD, OpPos: v.Pos(), Y: &ast.BasicLit{Kind: token.INT, Value: "1", ValuePos: v.Pos()}}}}
		e1 := trAssign(as, en)
		lets := takeLets()
		return wrapLets(lets, next(e1))
	case *ast.BranchStmt:
		if v.Tok == token.CONTINUE && len(loopConts) > 0 {
			return loopConts[len(loopConts)-1](en)
		}
		fail(v.Pos(), "%s", v.Tok)
	case *ast.IfStmt:
		outer := en.push() // scope of the init statement
		after := func(e env) string { return next(e.pop()) }
		e1 := outer
		var lets []string
		if v.Init != nil {
			as, ok := v.Init.(*ast.AssignStmt)
			if !ok {
				fail(v.Pos(), "if with a non-assignment init")
			}
			e1 = trAssign(as, outer)
			lets = takeLets()
		}
		body := trCond(v.Cond, e1,
			func(e env) string { return trBlock(v.Body.List, e, after) },
			func(e env) string {
				switch el := v.Else.(type) {
				case nil:
					return after(e)
				case *ast.BlockStmt:
					return trBlock(el.List, e, after)
				case *ast.IfStmt:
					return trStmts([]ast.Stmt{el}, e, after)
				}
				fail(v.Pos(), "else form")
				return ""
			})
		return wrapLets(lets, body)
	case *ast.TypeSwitchStmt:
		return trTypeSwitch(v, en, next)
	case *ast.SwitchStmt:
		var lets []string
		if v.Init != nil {
			as, ok := v.Init.(*ast.AssignStmt)
			if !ok {
				fail(v.Pos(), "switch with a non-assignment init")
			}
			en = trAssign(as, en.push())
			lets = takeLets()
			inner := next
			next = func(e env) string { return inner(e.pop()) }
		}
		var tag *val
		if v.Tag != nil {
			t := trExpr(v.Tag, en)
			en = absorb(en)
			n := fresh("tag")
			lets = append(append(lets, takeLets()...), fmt.Sprintf("let %s := %s", n, t.lean))
			tag = &val{lean: n, kd: t.kd}
		}
		var clauses []*ast.CaseClause
		var dflt *ast.CaseClause
		for _, c := range v.Body.List {
			cc := c.(*ast.CaseClause)
			if cc.List == nil {
				dflt = cc
			} else {
				clauses = append(clauses, cc)
			}
			for _, st := range cc.Body {
				if b, ok := st.(*ast.BranchStmt); ok {
					fail(b.Pos(), "%s inside switch", b.Tok)
				}
			}
		}
		var chain func(i int, e env) string
		chain = func(i int, e env) string {
			if i == len(clauses) {
				if dflt != nil {
					return trBlock(dflt.Body, e, next)
				}
				return next(e)
			}
			cc := clauses[i]
			var alt func(j int, e2 env) string
			alt = func(j int, e2 env) string {
				if j == len(cc.List) {
					return chain(i+1, e2)
				}
				hit := func(e3 env) string { return trBlock(cc.Body, e3, next) }
				miss := func(e3 env) string { return alt(j+1, e3) }
				if tag != nil {
					// case a, b, c: one body, taken when the tag equals any of the values
					var eqs []string
					for _, ce := range cc.List {
						c := trExpr(ce, e2)
						eqs = append(eqs, fmt.Sprintf("%s = %s", tag.lean, c.lean))
					}
					l2 := takeLets()
					return wrapLets(l2, fmt.Sprintf("(if (%s) then %s\nelse %s)", strings.Join(eqs, " ∨ "), hit(e2), chain(i+1, e2)))
				}
				return trCond(cc.List[j], e2, hit, miss)
			}
			return alt(0, e)
		}
		return wrapLets(lets, chain(0, en))
	}
	fail(s.Pos(), "unsupported statement %T", s)
	return ""
}

// ---------------------------------------------------------------- returns

func codeOf(e ast.Expr) string {
	r := render(e)
	if !strings.HasPrefix(r, "codes.") {
		fail(e.Pos(), "status code %s", r)
	}
	return knownCtor(e.Pos(), "GCode."+strings.TrimPrefix(r, "codes."))
}

// statusCode: status.New(codes.X, ..) / status.Newf(codes.X, ..) -> code
func statusCode(e ast.Expr) (string, bool) {
	c, ok := e.(*ast.CallExpr)
	if !ok {
		return "", false
	}
	fn := render(c.Fun)
	if (fn == "status.New" || fn == "status.Newf") && len(c.Args) >= 1 {
		return codeOf(c.Args[0]), true
	}
	return "", false
}

func trStatus(e ast.Expr, en env) (string, bool) {
	c, ok := e.(*ast.CallExpr)
	if !ok {
		return "", false
	}
	fn := render(c.Fun)
	switch {
	case fn == "status.Errorf" && len(c.Args) >= 1:
		return "(some ⟨" + codeOf(c.Args[0]) + ", Details.none⟩)", true
	case strings.HasSuffix(fn, ".Err") && len(c.Args) == 0:
		if sel, ok := c.Fun.(*ast.SelectorExpr); ok {
			if code, ok := statusCode(sel.X); ok {
				return "(some ⟨" + code + ", Details.none⟩)", true
			}
		}
	case (fn == "addModifyErrDetailsOrReturn" || fn == "addFlushErrDetailsOrReturn") && len(c.Args) == 2:
		code, ok := statusCode(c.Args[0])
		if !ok {
			fail(c.Pos(), "status argument of %s", fn)
		}
		u, ok := c.Args[1].(*ast.UnaryExpr)
		if !ok || u.Op != token.AND {
			fail(c.Pos(), "details argument of %s", fn)
		}
		cl, ok := u.X.(*ast.CompositeLit)
		if !ok {
			fail(c.Pos(), "details argument of %s", fn)
		}
		ty := render(cl.Type)
		want, key, pref, ctor, enumT := "spb.ModifyRPCErrorDetails", "Reason", "spb.ModifyRPCErrorDetails_", "Details.modify", "MReason."
		if fn == "addFlushErrDetailsOrReturn" {
			want, key, pref, ctor, enumT = "spb.FlushResponseError", "Status", "spb.FlushResponseError_", "Details.flush", "FReason."
		}
		if ty != want {
			fail(c.Pos(), "details of type %s passed to %s", ty, fn)
		}
		reason := "UNKNOWN"
		for _, el := range cl.Elts {
			kv, ok := el.(*ast.KeyValueExpr)
			if !ok || render(kv.Key) != key {
				fail(el.Pos(), "field of %s", ty)
			}
			r := render(kv.Value)
			if !strings.HasPrefix(r, pref) {
				fail(el.Pos(), "reason %s", r)
			}
			reason = strings.TrimPrefix(r, pref)
			knownCtor(el.Pos(), enumT+reason)
		}
		return "(some ⟨" + code + ", " + ctor + " " + enumT + reason + "⟩)", true
	}
	return "", false
}

func trMResp(e ast.Expr, en env) (string, bool) {
	u, ok := e.(*ast.UnaryExpr)
	if !ok || u.Op != token.AND {
		return "", false
	}
	cl, ok := u.X.(*ast.CompositeLit)
	if !ok || render(cl.Type) != "spb.ModifyResponse" {
		return "", false
	}
	if len(cl.Elts) != 1 {
		fail(cl.Pos(), "ModifyResponse literal with %d fields", len(cl.Elts))
	}
	kv := cl.Elts[0].(*ast.KeyValueExpr)
	switch render(kv.Key) {
	case "Result":
		x := trExpr(kv.Value, en)
		if x.kd.k != "list" || x.kd.s != "AFTResult" {
			fail(kv.Pos(), "Result of kind %s", x.kd)
		}
		return "(some (MResp.results " + atom(x.lean) + "))", true
	case "SessionParamsResult":
		if !strings.Contains(nodeText(kv.Value), "SessionParametersResult_OK") {
			fail(kv.Pos(), "SessionParamsResult other than OK")
		}
		return "(some MResp.paramsOk)", true
	case "ElectionId":
		x := trExpr(kv.Value, en)
		return "(some (MResp.elec " + atom(x.lean) + "))", true
	}
	fail(kv.Pos(), "ModifyResponse field %s", render(kv.Key))
	return "", false
}

var srcBytes []byte

func nodeText(n ast.Node) string {
	return string(srcBytes[fset.Position(n.Pos()).Offset:fset.Position(n.End()).Offset])
}

func trRetVal(e ast.Expr, want string, en env) string {
	if strings.HasPrefix(want, "ptr:") {
		if isNilIdent(e) {
			return "none"
		}
		x := trExpr(e, en)
		if want == "ptr:String" && x.kd.k == "str" {
			// a holder represented by its name: the pointer is not nil
			return "(some " + atom(x.lean) + ")"
		}
		if x.kd.k != "ptr" || x.kd.s != strings.TrimPrefix(want, "ptr:") {
			fail(e.Pos(), "returned value of kind %s, %s expected", x.kd, want)
		}
		if x.kd.nn {
			// a pointer that is never nil is represented by the struct itself
			return "(some " + atom(x.lean) + ")"
		}
		return x.lean
	}
	if strings.HasPrefix(want, "list:") {
		if isNilIdent(e) {
			return "[]"
		}
		x := trExpr(e, en)
		if x.kd.k != "list" || x.kd.s != strings.TrimPrefix(want, "list:") {
			fail(e.Pos(), "returned value of kind %s, %s expected", x.kd, want)
		}
		return x.lean
	}
	if strings.HasPrefix(want, "ptrnn:") {
		// the function never returns nil: the struct itself is returned
		x := trExpr(e, en)
		if x.kd.k != "ptr" || x.kd.s != strings.TrimPrefix(want, "ptrnn:") {
			fail(e.Pos(), "returned value of kind %s, %s expected", x.kd, want)
		}
		if x.kd.nn {
			return x.lean
		}
		b, ok := en.bound[x.path]
		if !ok {
			fail(e.Pos(), "the function is declared never to return nil, and %s may be nil", render(e))
		}
		return b
	}
	switch want {
	case "nat":
		x := trExpr(e, en)
		if x.kd.k != "nat" && x.kd.k != "int" {
			fail(e.Pos(), "returned value of kind %s, a number expected", x.kd)
		}
		return x.lean
	case "bool":
		return trBool(e, en)
	case "err":
		if isNilIdent(e) {
			return "none"
		}
		if s, ok := trStatus(e, en); ok {
			return s
		}
		if c, ok := e.(*ast.CallExpr); ok {
			if fn := render(c.Fun); fn == "fmt.Errorf" || fn == "errors.New" {
				// a plain Go error (no gRPC status)
				return "(some ⟨GCode.Unknown, Details.none⟩)"
			}
		}
		x := trExpr(e, en)
		if x.kd.k == "status" {
			return x.lean
		}
		fail(e.Pos(), "error value %s", render(e))
	case "fresp":
		if isNilIdent(e) {
			return "none"
		}
		if u, ok := e.(*ast.UnaryExpr); ok && u.Op == token.AND {
			if cl, ok := u.X.(*ast.CompositeLit); ok && render(cl.Type) == "spb.FlushResponse" {
				for _, el := range cl.Elts {
					kv := el.(*ast.KeyValueExpr)
					if render(kv.Key) == "Result" {
						r := render(kv.Value)
						if !strings.HasPrefix(r, "spb.FlushResponse_") {
							fail(kv.Pos(), "flush result %s", r)
						}
						return "(some " + knownCtor(kv.Pos(), "FlushResult."+strings.TrimPrefix(r, "spb.FlushResponse_")) + ")"
					}
				}
				return "(some FlushResult.UNSET)"
			}
		}
		fail(e.Pos(), "flush response %s", render(e))
	case "mresp":
		if isNilIdent(e) {
			return "none"
		}
		if s, ok := trMResp(e, en); ok {
			return s
		}
		x := trExpr(e, en)
		if x.kd.k == "mresp" {
			return x.lean
		}
		fail(e.Pos(), "response value %s", render(e))
	}
	fail(e.Pos(), "return kind %s", want)
	return ""
}

// tbResult: the result of a function whose only outcome is whether it failed the test
func tbResult(en env, b string) string {
	parts := []string{b}
	for _, st := range cur.state {
		parts = append(parts, en.vars[st.goExpr].lean)
	}
	if cur.effects {
		parts = append(parts, effsExpr(en))
	}
	if len(parts) == 1 {
		return wrapResult(b)
	}
	return wrapResult("(" + strings.Join(parts, ", ") + ")")
}

func trReturn(r *ast.ReturnStmt, en env) string {
	if len(en.locks) > 0 {
		fail(r.Pos(), "return while %s is locked (no deferred unlock, and not unlocked on this path)", heldLocks(en))
	}
	if cur != nil && cur.tbFatal && len(r.Results) == 0 {
		en = absorb(en)
		lets := takeLets()
		return wrapLets(lets, tbResult(en, "true"))
	}
	if len(r.Results) == 1 {
		if c, ok := r.Results[0].(*ast.CallExpr); ok {
			if fl, ok := en.closures[render(c.Fun)]; ok {
				// return f(args) of a local function literal: its body, inline, with the parameters
				// bound to the arguments; its own returns are the function's
				var names []string
				for _, p := range fl.Type.Params.List {
					for _, n := range p.Names {
						names = append(names, n.Name)
					}
				}
				if len(names) != len(c.Args) {
					fail(c.Pos(), "call of %s with %d arguments", render(c.Fun), len(c.Args))
				}
				e1 := en.push()
				for i, a := range c.Args {
					v := trExpr(a, en)
					bindResult(&e1, names[i], v, true, c.Pos())
				}
				e1 = absorb(e1)
				lets := takeLets()
				return wrapLets(lets, trStmts(fl.Body.List, e1, func(env) string {
					fail(fl.Body.Rbrace, "control reaches the end of a local function that returns values")
					return ""
				}))
			}
		}
	}
	if cur != nil && cur.builder && cur.recvName != "" && len(r.Results) == 1 && (len(cur.rets) == 0 || cur.tbFatal) {
		// return i: the builder itself (the chain goes on with the same state)
		if id, ok := r.Results[0].(*ast.Ident); !ok || id.Name != cur.recvName {
			fail(r.Pos(), "a builder method returns %s, not its receiver", render(r.Results[0]))
		}
		return trReturn(&ast.ReturnStmt{Return: r.Return}, en)
	}
	if len(r.Results) != len(cur.rets) {
		fail(r.Pos(), "return of %d values, %d expected", len(r.Results), len(cur.rets))
	}
	var parts []string
	for i, e := range r.Results {
		parts = append(parts, trRetVal(e, cur.rets[i], en))
	}
	en = absorb(en)
	for _, st := range cur.state {
		parts = append(parts, en.vars[st.goExpr].lean)
	}
	if cur.effects {
		parts = append(parts, effsExpr(en))
	}
	lets := takeLets()
	if len(parts) == 0 {
		fail(r.Pos(), "return of nothing from a function without state or effects")
	}
	out := parts[0]
	if len(parts) > 1 {
		out = "(" + strings.Join(parts, ", ") + ")"
	}
	return wrapLets(lets, wrapResult(out))
}

// ---------------------------------------------------------------- driver

// constValue: the value of a package-level integer constant declared with iota or a literal
func constValue(f *ast.File, name string) (string, bool) {
	for _, d := range f.Decls {
		gd, ok := d.(*ast.GenDecl)
		if !ok || gd.Tok != token.CONST {
			continue
		}
		usesIota := false
		for i, sp := range gd.Specs {
			vs := sp.(*ast.ValueSpec)
			if len(vs.Values) == 1 {
				if id, ok := vs.Values[0].(*ast.Ident); ok && id.Name == "iota" {
					usesIota = true
				} else {
					usesIota = false
				}
			}
			for _, n := range vs.Names {
				if n.Name == name {
					if len(vs.Values) == 1 {
						if bl, ok := vs.Values[0].(*ast.BasicLit); ok {
							return bl.Value, true
						}
					}
					if usesIota {
						return strconv.Itoa(i), true
					}
					return "", false
				}
			}
		}
	}
	return "", false
}

func findFunc(f *ast.File, name, recvType string) *ast.FuncDecl {
	for _, d := range f.Decls {
		fd, ok := d.(*ast.FuncDecl)
		if !ok || fd.Name.Name != name {
			continue
		}
		if recvType != "" {
			if fd.Recv == nil || len(fd.Recv.List) != 1 || render(fd.Recv.List[0].Type) != recvType {
				continue
			}
		}
		return fd
	}
	return nil
}

func translate(sp *fnSpec, files map[string]*ast.File, srcs map[string][]byte) (def string, err error) {
	defer func() {
		if r := recover(); r != nil {
			if te, ok := r.(terr); ok {
				err = fmt.Errorf("%s: %s", sp.goName, te.msg)
				return
			}
			// an unexpected shape of the source must not take the whole run down: the function
			// counts as not translated (its obligation fails), the others are still translated
			err = fmt.Errorf("%s: the translator could not handle this function (%v)", sp.goName, r)
		}
	}()
	f := files[sp.file]
	if f == nil {
		return "", fmt.Errorf("%s: %s could not be read or parsed", sp.goName, sp.file)
	}
	srcBytes = srcs[sp.file]
	fd := findFunc(f, sp.goName, sp.recvType)
	if fd == nil {
		return "", fmt.Errorf("%s: function not found in %s", sp.goName, sp.file)
	}
	for name, want := range sp.consts {
		got, ok := constValue(f, name)
		if !ok || got != want {
			return "", fmt.Errorf("%s: constant %s is %q in the source, the translator expects %s", sp.goName, name, got, want)
		}
	}
	if len(sp.extConsts) > 0 {
		cf := files["constants/const.go"]
		if cf == nil {
			return "", fmt.Errorf("%s: constants/const.go was not read", sp.goName)
		}
		for name, want := range sp.extConsts {
			got, ok := constValue(cf, strings.TrimPrefix(name, "constants."))
			if !ok || got != want {
				return "", fmt.Errorf("%s: constant %s is %q in the source, the translator expects %s", sp.goName, name, got, want)
			}
		}
	}
	cur = sp
	pendingLets = nil
	oracleEffects = nil
	pendingState = map[string]val{}
	pendingLocals = map[string]val{}
	pendingEffBase = ""
	counter = 0
	loopIndex = 0
	joinIndex = 0
	// a translation that failed half way must leave nothing behind for the next function
	resTypeStack = nil
	loopConts = nil
	inJoinAttempt = map[ast.Stmt]bool{}
	en := env{vars: map[string]val{}, bound: map[string]string{}, isNil: map[string]bool{}, closures: map[string]*ast.FuncLit{}, locks: map[string]bool{}, held: map[string]bool{}}
	var binders []string
	// Go parameters, in order, must be the ones the spec lists
	var goParams []string
	if sp.recvType != "" && sp.recvIsParam {
		goParams = append(goParams, fd.Recv.List[0].Names[0].Name+" "+render(fd.Recv.List[0].Type))
	}
	for _, p := range fd.Type.Params.List {
		for _, n := range p.Names {
			goParams = append(goParams, n.Name+" "+render(p.Type))
		}
	}
	var want []string
	for _, p := range sp.params {
		want = append(want, p.goName+" "+p.goType)
	}
	if sp.inlineClosures {
		expandClosures(fd.Body)
	}
	substOcc = numberOccurrences(fd.Body, sp.subst)
	selectOcc = map[*ast.SelectStmt]int{}
	ast.Inspect(fd.Body, func(n ast.Node) bool {
		if sl, ok := n.(*ast.SelectStmt); ok {
			selectOcc[sl] = len(selectOcc) + 1
		}
		return true
	})
	returnHook = nil
	selectorParent = map[ast.Expr]bool{}
	ast.Inspect(fd.Body, func(n ast.Node) bool {
		if se, ok := n.(*ast.SelectorExpr); ok {
			selectorParent[se.X] = true
		}
		return true
	})
	sp.recvName = ""
	if fd.Recv != nil && len(fd.Recv.List) == 1 && len(fd.Recv.List[0].Names) == 1 {
		sp.recvName = fd.Recv.List[0].Names[0].Name
	}
	stmts := fd.Body.List
	if sp.loop {
		// one iteration of the receive loop of the first goroutine the function starts, from the
		// first declaration after the message has been read
		want = goParams
		stmts = nil
		for _, st := range fd.Body.List {
			g, ok := st.(*ast.GoStmt)
			if !ok {
				continue
			}
			fl, ok := g.Call.Fun.(*ast.FuncLit)
			if !ok {
				continue
			}
			for _, st2 := range fl.Body.List {
				if fs, ok := st2.(*ast.ForStmt); ok && fs.Cond == nil && fs.Init == nil && fs.Post == nil {
					for i, st3 := range fs.Body.List {
						if _, ok := st3.(*ast.DeclStmt); ok {
							stmts = fs.Body.List[i:]
							break
						}
					}
				}
			}
			break
		}
		if stmts == nil {
			return "", fmt.Errorf("%s: receive loop not found", sp.goName)
		}
	}
	if strings.Join(goParams, ", ") != strings.Join(want, ", ") {
		return "", fmt.Errorf("%s: signature is (%s), the translator expects (%s)", sp.goName, strings.Join(goParams, ", "), strings.Join(want, ", "))
	}
	var goRets []string
	if fd.Type.Results != nil {
		for _, p := range fd.Type.Results.List {
			goRets = append(goRets, render(p.Type))
		}
	}
	if !sp.loop && strings.Join(goRets, ", ") != sp.goRets {
		return "", fmt.Errorf("%s: results are (%s), the translator expects (%s)", sp.goName, strings.Join(goRets, ", "), sp.goRets)
	}
	addParam := func(p param) {
		if p.skip {
			return
		}
		path := p.goName
		if p.nonnil {
			binders = append(binders, fmt.Sprintf("(%s : %s)", p.lean, leanStruct[p.kd.s]))
			en.bound[path] = p.lean
			en.vars[p.goName] = val{lean: "(some " + p.lean + ")", kd: p.kd, path: path}
		} else {
			binders = append(binders, fmt.Sprintf("(%s : %s)", p.lean, leanType(p.kd)))
			en.vars[p.goName] = val{lean: p.lean, kd: p.kd, path: path}
		}
	}
	for _, p := range sp.params {
		addParam(p)
	}
	for _, p := range sp.oracleParams {
		addParam(p)
	}
	for _, st := range sp.state {
		binders = append(binders, fmt.Sprintf("(%s : %s)", st.lean, leanType(st.kd)))
		en.vars[st.goExpr] = val{lean: st.lean, kd: st.kd, path: st.goExpr}
	}
	// two binders of one name: the later would hide the earlier in the generated definition
	{
		seen := map[string]bool{}
		for _, b := range binders {
			n := strings.TrimPrefix(strings.SplitN(b, " ", 2)[0], "(")
			if seen[n] {
				return "", fmt.Errorf("%s: the specification binds the name %s twice", sp.goName, n)
			}
			seen[n] = true
		}
	}
	var retTypes []string
	for _, r := range sp.rets {
		retTypes = append(retTypes, leanType(retKind(r)))
	}
	for _, st := range sp.state {
		retTypes = append(retTypes, leanType(st.kd))
	}
	if sp.effects {
		retTypes = append(retTypes, "List Eff")
	}
	if sp.loop {
		retTypes = []string{"LoopOut"}
	}
	curRetTypes = retTypes
	if sp.selfRec {
		var ts []string
		for _, p := range sp.params {
			if p.skip {
				continue
			}
			if p.nonnil {
				ts = append(ts, leanStruct[p.kd.s])
			} else {
				ts = append(ts, atom2(leanType(p.kd)))
			}
		}
		for _, st := range sp.state {
			ts = append(ts, atom2(leanType(st.kd)))
		}
		ts = append(ts, "List Eff")
		binders = append([]string{"(self : " + strings.Join(ts, " → ") + " → " + atom2(strings.Join(retTypes, " × ")) + ")"}, binders...)
	}
	body := trStmts(stmts, en, func(e env) string {
		if sp.loop {
			return "(LoopOut.cont " + atom(e.vars["gotmsg"].lean) + " " + effsExpr(e) + ")"
		}
		if len(sp.rets) == 0 || sp.tbFatal {
			return trReturn(&ast.ReturnStmt{}, e)
		}
		fail(fd.Body.Rbrace, "control reaches the end of a function that returns values")
		return ""
	})
	// one line: Lean's application syntax is sensitive to the column of an argument that follows a
	// line break, and the generated terms are not laid out by column
	body = strings.ReplaceAll(body, "\n", " ")
	pre := ""
	var tables []string
	for t := range sp.constMaps {
		tables = append(tables, t)
	}
	sort.Strings(tables)
	for _, t := range tables {
		d, err := constMapDef(f, t, sp.constMaps[t])
		if err != nil {
			return "", fmt.Errorf("%s: %v", sp.goName, err)
		}
		pre += d
	}
	return pre + fmt.Sprintf("/-- translated from `%s` (%s) -/\ndef %s %s : %s :=\n%s\n", sp.goName, sp.file, sp.leanName, strings.Join(binders, " "), strings.Join(retTypes, " × "), body), nil
}

// constMapDef: `var t = map[K]V{k1: v1, …}` at package level, with constant integer keys and
// enumeration constants of the protobuf package as values, as a Lean function on the key
// (first entry that matches; Go rejects duplicate constant keys, so the order does not matter)
func constMapDef(f *ast.File, name, lean string) (string, error) {
	for _, d := range f.Decls {
		gd, ok := d.(*ast.GenDecl)
		if !ok || gd.Tok != token.VAR {
			continue
		}
		for _, spc := range gd.Specs {
			vs := spc.(*ast.ValueSpec)
			for i, n := range vs.Names {
				if n.Name != name {
					continue
				}
				if i >= len(vs.Values) {
					return "", fmt.Errorf("table %s has no initial value", name)
				}
				cl, ok := vs.Values[i].(*ast.CompositeLit)
				if !ok {
					return "", fmt.Errorf("table %s is not a map literal", name)
				}
				if _, ok := cl.Type.(*ast.MapType); !ok {
					return "", fmt.Errorf("table %s is not a map literal", name)
				}
				body := "0"
				for j := len(cl.Elts) - 1; j >= 0; j-- {
					kv, ok := cl.Elts[j].(*ast.KeyValueExpr)
					if !ok {
						return "", fmt.Errorf("table %s: element without a key", name)
					}
					kid, ok := kv.Key.(*ast.Ident)
					if !ok {
						return "", fmt.Errorf("table %s: key %s is not a named constant", name, render(kv.Key))
					}
					kval, ok := constValue(f, kid.Name)
					if !ok {
						return "", fmt.Errorf("table %s: the value of constant %s could not be determined", name, kid.Name)
					}
					vsel, ok := kv.Value.(*ast.SelectorExpr)
					if !ok || (render(vsel.X) != "spb" && render(vsel.X) != "enums") {
						return "", fmt.Errorf("table %s: value %s is not an enumeration constant of the protobuf packages", name, render(kv.Value))
					}
					vname := vsel.Sel.Name
					if render(vsel.X) == "enums" {
						const pfx = "OpenconfigAftTypesEncapsulationHeaderType_OPENCONFIGAFTTYPESENCAPSULATIONHEADERTYPE_"
						if !strings.HasPrefix(vname, pfx) {
							return "", fmt.Errorf("table %s: value %s is not in the translator's table", name, render(kv.Value))
						}
						vname = "EncapType_" + strings.TrimPrefix(vname, pfx)
					}
					body = fmt.Sprintf("if k = %s then %s else %s", kval, knownCtor(kv.Pos(), vname), body)
				}
				// assigned anywhere else in the file?
				var reassigned error
				ast.Inspect(f, func(nd ast.Node) bool {
					if as, ok := nd.(*ast.AssignStmt); ok {
						for _, l := range as.Lhs {
							if ix, ok := l.(*ast.IndexExpr); ok && render(ix.X) == name {
								reassigned = fmt.Errorf("table %s is written to after its initialisation", name)
							}
							if id, ok := l.(*ast.Ident); ok && id.Name == name && as.Tok == token.ASSIGN {
								reassigned = fmt.Errorf("table %s is assigned after its initialisation", name)
							}
						}
					}
					return true
				})
				if reassigned != nil {
					return "", reassigned
				}
				return fmt.Sprintf("/-- the package-level table `%s`, entry by entry -/\ndef %s (k : Int) : Nat :=\n  %s\n\n", name, lean, body), nil
			}
		}
	}
	return "", fmt.Errorf("table %s not found", name)
}

// checkRepoStructs compares the schema of the structs declared in /repo with the source.
func checkRepoStructs(files map[string]*ast.File) []string {
	var problems []string
	goKind := func(k kind) string {
		switch k.k {
		case "bool":
			return "bool"
		case "str":
			return "string"
		case "int":
			return "int64"
		case "nat":
			return "uint64"
		case "ptr":
			switch k.s {
			case "Uint128", "SessionParameters", "SessionParametersResult":
				return "*spb." + k.s
			case "AFTOperationC":
				return "*spb.AFTOperation"
			}
			return "*" + k.s
		}
		return "?"
	}
	type decl struct{ file, name string }
	for _, d := range []decl{{"server/server.go", "electionDetails"}, {"server/server.go", "clientParams"}, {"server/server.go", "clientState"},
		{"client/gribiclient.go", "PendingOp"}, {"client/gribiclient.go", "ElectionReqDetails"}, {"client/gribiclient.go", "SessionParamReqDetails"},
		{"client/gribiclient.go", "OpDetailsResults"}, {"client/gribiclient.go", "COpResult"}} {
		name := d.name
		found := false
		for fname, f := range files {
			if fname != d.file {
				continue
			}
			ast.Inspect(f, func(n ast.Node) bool {
				ts, ok := n.(*ast.TypeSpec)
				if !ok || ts.Name.Name != strings.TrimPrefix(name, "C") {
					return true
				}
				st, ok := ts.Type.(*ast.StructType)
				if !ok {
					return true
				}
				found = true
				enumField := map[string]bool{}
				for _, fl := range schemas[name] {
					if fl.kd.k == "enum" {
						enumField[fl.goName] = true
					}
				}
				var got []string
				for _, fl := range st.Fields.List {
					for _, n := range fl.Names {
						if enumField[n.Name] && strings.Contains(render(fl.Type), ".") {
							// an enumeration of another package: represented by its number
							got = append(got, n.Name+" enum")
							continue
						}
						got = append(got, n.Name+" "+render(fl.Type))
					}
				}
				var want []string
				for _, fl := range schemas[name] {
					if fl.kd.k == "enum" {
						want = append(want, fl.goName+" enum")
						continue
					}
					want = append(want, fl.goName+" "+goKind(fl.kd))
				}
				sort.Strings(got)
				sort.Strings(want)
				if strings.Join(got, "; ") != strings.Join(want, "; ") {
					problems = append(problems, fmt.Sprintf("struct %s is {%s}, the translator's schema says {%s}", name, strings.Join(got, "; "), strings.Join(want, "; ")))
				}
				return false
			})
		}
		if !found {
			problems = append(problems, "struct "+name+" not found")
		}
	}
	return problems
}

func main() {
	repo := flag.String("repo", "/repo", "repository root")
	out := flag.String("out", "", "output directory (one Lean module per translated function)")
	list := flag.Bool("list", false, "print the translated functions (file, function, receiver type) and exit")
	flag.Parse()
	if *list {
		for _, sp := range specs {
			fmt.Printf("%s %s %s\n", sp.file, sp.goName, strings.ReplaceAll(sp.recvType, " ", ""))
		}
		return
	}
	files := map[string]*ast.File{}
	srcs := map[string][]byte{}
	for i := range specs {
		rel := specs[i].file
		if files[rel] != nil {
			continue
		}
		b, err := os.ReadFile(filepath.Join(*repo, rel))
		if err != nil {
			// the functions of a file that is gone count as not translated
			fmt.Fprintln(os.Stderr, err)
			continue
		}
		f, err := parser.ParseFile(fset, rel, b, parser.ParseComments)
		if err != nil {
			fmt.Fprintln(os.Stderr, err)
			continue
		}
		files[rel] = f
		srcs[rel] = b
	}
	if b, err := os.ReadFile(filepath.Join(*repo, "constants/const.go")); err == nil {
		if f, err := parser.ParseFile(fset, "constants/const.go", b, parser.ParseComments); err == nil {
			files["constants/const.go"] = f
			srcs["constants/const.go"] = b
		}
	}
	structProblems := checkRepoStructs(files)
	okCount := 0
	var problems []string
	for i := range specs {
		sp := &specs[i]
		sp.uses = map[string]bool{}
		var sb strings.Builder
		sb.WriteString("/-\nGENERATED by /verif/translate from /repo on every check run. Do not edit.\nThe definition is the statement-by-statement translation of the Go function named in its doc\ncomment; see Gribi/GenPrelude.lean for the vocabulary and Gribi/Props/GenEquiv/ for the theorems\nthat tie it to the hand-written model.\n-/\n")
		def, err := translate(sp, files, srcs)
		if err == nil && len(structProblems) > 0 {
			err = fmt.Errorf("%s", strings.Join(structProblems, "; "))
		}
		sb.WriteString("import Gribi.GenPrelude\n")
		if err == nil {
			var us []string
			for u := range sp.uses {
				us = append(us, u)
			}
			sort.Strings(us)
			for _, u := range us {
				sb.WriteString("import Gribi.Gen." + modName(u) + "\n")
			}
		}
		sb.WriteString("set_option linter.unusedVariables false\n")
		if sp.heartbeats > 0 {
			sb.WriteString(fmt.Sprintf("set_option maxHeartbeats %d\n", sp.heartbeats))
		}
		sb.WriteString("namespace Gribi.Gen\n\n")
		if err != nil {
			failed[sp.leanName] = true
			problems = append(problems, err.Error())
			// a stub of the wrong type: the equivalence theorem about it cannot check
			sb.WriteString(fmt.Sprintf("/-- NOT TRANSLATED: %s -/\ndef %s : Unit := ()\n\n/-- why the translation failed -/\ndef %s_problem : Option String := some %s\n", strings.ReplaceAll(err.Error(), "-/", "- /"), sp.leanName, sp.leanName, leanStr(err.Error())))
		} else {
			okCount++
			sb.WriteString(def + "\n/-- why the translation failed (none: it did not) -/\ndef " + sp.leanName + "_problem : Option String := none\n")
		}
		sb.WriteString("\nend Gribi.Gen\n")
		if *out == "" {
			fmt.Print(sb.String())
			continue
		}
		dst := filepath.Join(*out, modName(sp.leanName)+".lean")
		old, _ := os.ReadFile(dst)
		if string(old) != sb.String() {
			if err := os.WriteFile(dst, []byte(sb.String()), 0o644); err != nil {
				fmt.Fprintln(os.Stderr, err)
				os.Exit(2)
			}
		}
	}
	fmt.Printf("translated %d of %d functions; %d problem(s)\n", okCount, len(specs), len(problems))
	for _, p := range problems {
		fmt.Println("  " + p)
	}
}

func modName(lean string) string { return strings.ToUpper(lean[:1]) + lean[1:] }
