package main

// The functions that are translated, with the Lean shape of their parameters.
//
// A parameter marked nonnil is a pointer the function dereferences without testing it: the
// caller guarantees it (a declared precondition; where the caller is itself translated the
// translator checks the guarantee at the call site).

type param struct {
	goName, goType string
	lean           string
	kd             kind
	nonnil         bool
	skip           bool // not used by the logic (ids used only in messages)
}

type stateField struct {
	goExpr, lean string
	kd           kind
}

type oracle struct {
	results []string // names of oracle parameters bound to the call's results
	effect  string   // constructor of Gen.Eff recorded when the call is made ("" = none)
	errOf   bool     // results are (pointer, error) and exactly one of them is nil
	okOf    bool     // results are (pointer, ok) and ok is true exactly when the pointer is non-nil
	args    []int    // which arguments the recorded effect captures (nil = all)
	fatalIfFalse bool // (tbFatal functions) the callee fails the test itself when its result is false
	ownLock bool // the callee works on state guarded by a lock of its own: the caller's holdLocks do not apply to the call
	outArgs map[int]string // arguments passed as &x that the callee overwrites: index -> oracle parameter holding the new value
}

type fnSpec struct {
	file, goName string
	callAs       string // how other translated functions call it
	leanName     string
	params       []param
	goRets       string
	rets         []string // bool | err | mresp
	oracleParams []param
	oracles      map[string]oracle
	subst        map[string]string // rendered Go expression -> oracle parameter
	state        []stateField
	effects      bool
	consts       map[string]string // package-level constants the function names (checked against the source)
	typeMap      map[string]string // Go struct name -> schema name, where this function needs a different view
	recvType     string // the method's receiver type (as written), to tell methods of the same name apart
	recvIsParam  bool   // the receiver is a value the function works on: it is the first parameter
	errChan      bool // errors are reported by sending on errCh (recorded as effects), not returned
	loop         bool // translate one iteration of the receive loop inside the function (see translate)
	uses         map[string]bool // translated functions this one calls (filled while translating)
	assertFields map[string]string // "GetF().(*T)" -> field of the receiver's representation that says whether the oneof F holds member T
	deleteEff    string            // `delete(m, k)` on a state map is also recorded as this effect (constructor:constant)
	tbFatal      bool              // the function reports by t.Fatalf; its translation returns whether it passed
	valueLoops   bool              // loops return Sum (function result) (loop state) instead of taking the code after them as their base case (needed when a loop is nested in another and falls back into it)
	heartbeats   int               // elaboration budget of the generated module (0 = Lean's default); a large nest of local recursive functions needs more than the default to be compiled, never "unlimited"
	joins        bool              // translate the code after a branching statement once, as a local join point (see tryJoin)
	selfRec      bool              // the function calls itself: the generated definition takes the function to call as its first argument (`self`)
	holdLocks    []string          // mutexes that must be held wherever the function reads substituted state, makes a recorded call or sends (checked along every path)
	unguarded    map[string]bool   // substituted expressions that holdLocks does not cover (fields that never change)
	selects      map[int]string    // select statement number (source order) -> the oracle that decides it ("§name@var,…")
	chanSends    map[string]string // channel -> constructor of Gen.Eff recorded when a value is sent on it in a select
	oneofView    string            // the oneof table to read literals of oneof members with (where a Go wrapper type is listed in more than one)
	assertPtrFields map[string]string // "x.(*T)" -> pointer field of x's representation holding x's value when its dynamic type is *T
	fatalNil     bool              // the function returns a pointer and reports by t.Fatalf: failing the test is returning none (the caller, a tbFatal function, stops there)
	assertBoolFields map[string]string // "x.(*T)" -> Boolean field of x's representation: whether x's dynamic type is *T
	statusViews  bool              // *status.Status and its protobuf are one struct: s.Proto(), status.FromProto(p), proto.Clone(p).(*T) are copies; s.Code(), s.Message() read fields; proto.Equal compares field by field
	natListTypes map[string]bool   // element types of slices whose elements the spec represents by numbers (functional options: each constructor is an oracle with a "#n" result)
	inlineClosures bool            // local procedures (function literals without results or returns, bound to a name) are expanded where they are called (see expandClosures)
	extConsts    map[string]string // constants of package constants the function names -> their value (checked against constants/const.go)
	builder      bool              // a method of a fluent builder: it returns its receiver (the chain goes on with the state it leaves); fields below the builder's protobuf are assigned in place; the protobuf is handed out only as proto.Clone of it
	recvName     string            // (filled while translating) the receiver's name
	mayHandOut   bool              // (builder) this method is the one that hands the builder's own struct out (AsResult)
	constMaps    map[string]string // package-level map literals the function looks keys up in -> the Lean function generated from the literal
}

func (f *fnSpec) isState(r string) bool {
	for _, s := range f.state {
		if s.goExpr == r {
			return true
		}
	}
	return false
}

var specs = []fnSpec{
	{
		file: "server/server.go", goName: "Equal", recvType: "*clientParams", recvIsParam: true, callAs: "*.Equal", leanName: "clientParamsEqual",
		params: []param{
			{goName: "cp", goType: "*clientParams", lean: "cp", kd: kPtr("clientParams"), nonnil: true},
			{goName: "n", goType: "*clientParams", lean: "n", kd: kPtr("clientParams"), nonnil: true},
		},
		goRets: "bool", rets: []string{"bool"},
	},
	{
		file: "server/server.go", goName: "newClient", recvType: "*Server", callAs: "s.newClient", leanName: "newClient",
		params:  []param{{goName: "id", goType: "string", lean: "id", kd: kStr}},
		goRets:  "error", rets: []string{"err"},
		state:   []stateField{{goExpr: "s.cs", lean: "cs", kd: kind{k: "map", s: "clientState"}}},
		holdLocks: []string{"s.csMu"},
	},
	{
		file: "server/server.go", goName: "deleteClient", recvType: "*Server", callAs: "s.deleteClient", leanName: "deleteClient",
		params:  []param{{goName: "id", goType: "string", lean: "id", kd: kStr}},
		goRets:  "", rets: []string{},
		state:   []stateField{{goExpr: "s.cs", lean: "cs", kd: kind{k: "map", s: "clientState"}}},
		holdLocks: []string{"s.csMu"},
	},
	{
		file: "server/server.go", goName: "updateParams", recvType: "*Server", callAs: "s.updateParams", leanName: "updateParams",
		params: []param{
			{goName: "id", goType: "string", lean: "id", kd: kStr},
			{goName: "params", goType: "*spb.SessionParameters", lean: "params", kd: kPtr("SessionParameters"), nonnil: true},
		},
		goRets: "error", rets: []string{"err"},
		state:  []stateField{{goExpr: "s.cs", lean: "cs", kd: kind{k: "map", s: "clientState"}}},
		holdLocks: []string{"s.csMu"},
	},
	{
		file: "server/server.go", goName: "checkClientsConsistent", recvType: "*Server", callAs: "s.checkClientsConsistent", leanName: "checkClientsConsistent",
		params: []param{
			{goName: "id", goType: "string", lean: "id", kd: kStr},
			{goName: "p", goType: "*clientParams", lean: "p", kd: kPtr("clientParams")},
		},
		goRets: "bool, error", rets: []string{"bool", "err"},
		state:  []stateField{{goExpr: "s.cs", lean: "cs", kd: kind{k: "map", s: "clientState"}}},
		holdLocks: []string{"s.csMu"},
	},
	{
		file: "server/server.go", goName: "setClientParams", recvType: "*Server", callAs: "s.setClientParams", leanName: "setClientParams",
		params: []param{
			{goName: "id", goType: "string", lean: "id", kd: kStr},
			{goName: "p", goType: "*clientParams", lean: "p", kd: kPtr("clientParams"), nonnil: true},
		},
		goRets: "error", rets: []string{"err"},
		state:  []stateField{{goExpr: "s.cs", lean: "cs", kd: kind{k: "map", s: "clientState"}}},
		holdLocks: []string{"s.csMu"},
	},
	{
		file: "server/server.go", goName: "storeClientElectionID", recvType: "*Server", callAs: "s.storeClientElectionID", leanName: "storeClientElectionID",
		params: []param{
			{goName: "id", goType: "string", lean: "id", kd: kStr},
			{goName: "elecID", goType: "*spb.Uint128", lean: "elecID", kd: kPtr("Uint128")},
		},
		goRets: "bool", rets: []string{"bool"},
		state:  []stateField{{goExpr: "s.cs", lean: "cs", kd: kind{k: "map", s: "clientState"}}},
		holdLocks: []string{"s.csMu"},
	},
	{
		file: "server/server.go", goName: "getClientStateCopy", recvType: "*Server", callAs: "s.getClientStateCopy", leanName: "getClientStateCopy",
		params:  []param{{goName: "id", goType: "string", lean: "id", kd: kStr}},
		goRets:  "*clientState, error", rets: []string{"ptr:clientState", "err"},
		oracles: map[string]oracle{"*.DeepCopy": {results: []string{"$recv"}}},
		state:   []stateField{{goExpr: "s.cs", lean: "cs", kd: kind{k: "map", s: "clientState"}}},
		holdLocks: []string{"s.csMu"},
	},

	{
		file: "server/server.go", goName: "doModify", callAs: "s.doModify", leanName: "doModify", errChan: true,
		params: []param{
			{goName: "cid", goType: "string", lean: "cid", kd: kStr},
			{goName: "ops", goType: "[]*spb.AFTOperation", lean: "ops", kd: kind{k: "list", s: "AFTOperation", elemNN: true}},
			{goName: "resCh", goType: "chan *spb.ModifyResponse", lean: "resCh", kd: kStr, skip: true},
			{goName: "errCh", goType: "chan error", lean: "errCh", kd: kStr, skip: true},
		},
		goRets: "", rets: []string{},
		oracleParams: []param{
			{goName: "§cs", lean: "cs", kd: kPtr("clientState")},
			{goName: "§csOk", lean: "csOk", kd: kBool},
			{goName: "§elec", lean: "elec", kd: kPtr("electionDetails"), nonnil: true},
			{goName: "§niKnown", lean: "niKnown", kd: kind{k: "fun", t: []kind{kBool, kStr}}},
			{goName: "§meRes", lean: "meRes", kd: kind{k: "fun", t: []kind{kind{k: "mresp"}, kPtr("AFTOperation")}}},
			{goName: "§meErr", lean: "meErr", kd: kind{k: "fun", t: []kind{kind{k: "status"}, kPtr("AFTOperation")}}},
		},
		oracles: map[string]oracle{
			"s.getClientState":               {results: []string{"§cs", "§csOk"}, okOf: true},
			"s.getElection":                  {results: []string{"§elec"}},
			"s.masterRIB.NetworkInstanceRIB": {results: []string{"$0", "§niKnown@0"}},
			"modifyEntry":                    {results: []string{"§meRes@2", "§meErr@2"}, effect: "modifyEntry", args: []int{1, 2, 3, 4}},
		},
		effects: true,
	},
	{
		file: "server/server.go", goName: "doGet", callAs: "s.doGet", leanName: "doGet", errChan: true,
		params: []param{
			{goName: "req", goType: "*spb.GetRequest", lean: "req", kd: kPtr("GetRequestG")},
			{goName: "msgCh", goType: "chan *spb.GetResponse", lean: "msgCh", kd: kStr, skip: true},
			{goName: "doneCh", goType: "chan struct{}", lean: "doneCh", kd: kStr, skip: true},
			{goName: "stopCh", goType: "chan struct{}", lean: "stopCh", kd: kStr, skip: true},
			{goName: "errCh", goType: "chan error", lean: "errCh", kd: kStr, skip: true},
		},
		goRets: "", rets: []string{},
		oracleParams: []param{
			{goName: "§known", lean: "known", kd: kind{k: "list", s: "String"}},
			{goName: "§niKnown", lean: "niKnown", kd: kind{k: "fun", t: []kind{kBool, kStr}}},
			{goName: "§getErr", lean: "getErr", kd: kind{k: "fun", t: []kind{kind{k: "status"}, kStr}}},
		},
		// a RIBHolder is represented by the name of its network instance
		oracles: map[string]oracle{
			"s.masterRIB.KnownNetworkInstances": {results: []string{"§known"}},
			"s.masterRIB.NetworkInstanceRIB":    {results: []string{"$0", "§niKnown@0"}},
			"*.GetRIB":                           {results: []string{"§getErr@recv"}, effect: "getRIB", args: []int{-1, 0}},
		},
		typeMap: map[string]string{"GetRequest": "GetRequestG"},
		effects: true,
	},
	{
		file: "rib/rib.go", goName: "canDelete", callAs: "r.canDelete", leanName: "canDelete",
		params: []param{
			{goName: "netInst", goType: "string", lean: "netInst", kd: kStr},
			{goName: "deletionCandidate", goType: "*aft.RIB", lean: "cand", kd: kPtr("CandRIB")},
		},
		goRets: "bool, error", rets: []string{"bool", "err"},
		oracleParams: []param{
			{goName: "§candErr", lean: "candErr", kd: kind{k: "status"}},
			{goName: "§defaultName", lean: "defaultName", kd: kStr},
			{goName: "§niKnown", lean: "niKnown", kd: kind{k: "fun", t: []kind{kBool, kStr}}},
			{goName: "§nhgExists", lean: "nhgExists", kd: kind{k: "fun", t: []kind{kBool, kStr, kNat}}},
			{goName: "§nhExists", lean: "nhExists", kd: kind{k: "fun", t: []kind{kBool, kStr, kNat}}},
			{goName: "§nhgReferenced", lean: "nhgReferenced", kd: kind{k: "fun", t: []kind{kBool, kStr, kNat}}},
			{goName: "§nhReferenced", lean: "nhReferenced", kd: kind{k: "fun", t: []kind{kBool, kStr, kNat}}},
		},
		// a RIBHolder is represented by the name of its network instance
		oracles: map[string]oracle{
			"checkCandidate":         {results: []string{"§candErr"}},
			"r.NetworkInstanceRIB":   {results: []string{"$0", "§niKnown@0"}},
			"*.GetNextHop":           {results: []string{"$0", "§nhExists@recv,0"}},
			"*.GetNextHopGroup":      {results: []string{"$0", "§nhgExists@recv,0"}},
			"*.nhgExists":            {results: []string{"§nhgExists@recv,0"}},
			"*.nhExists":             {results: []string{"§nhExists@recv,0"}},
			"*.nhgReferenced":        {results: []string{"§nhgReferenced@recv,0"}},
			"*.nhReferenced":         {results: []string{"§nhReferenced@recv,0"}},
		},
		subst: map[string]string{"r.defaultName": "§defaultName"},
	},
	{
		file: "rib/rib.go", goName: "canResolve", callAs: "r.canResolve", leanName: "canResolve",
		params: []param{
			{goName: "netInst", goType: "string", lean: "netInst", kd: kStr},
			{goName: "candidate", goType: "*aft.RIB", lean: "cand", kd: kPtr("CandRIB")},
		},
		goRets: "bool, error", rets: []string{"bool", "err"},
		oracleParams: []param{
			{goName: "§candErr", lean: "candErr", kd: kind{k: "status"}},
			{goName: "§defaultName", lean: "defaultName", kd: kStr},
			{goName: "§niKnown", lean: "niKnown", kd: kind{k: "fun", t: []kind{kBool, kStr}}},
			{goName: "§nhgExists", lean: "nhgExists", kd: kind{k: "fun", t: []kind{kBool, kStr, kNat}}},
			{goName: "§nhExists", lean: "nhExists", kd: kind{k: "fun", t: []kind{kBool, kStr, kNat}}},
			{goName: "§nhgReferenced", lean: "nhgReferenced", kd: kind{k: "fun", t: []kind{kBool, kStr, kNat}}},
			{goName: "§nhReferenced", lean: "nhReferenced", kd: kind{k: "fun", t: []kind{kBool, kStr, kNat}}},
		},
		// a RIBHolder is represented by the name of its network instance
		oracles: map[string]oracle{
			"checkCandidate":         {results: []string{"§candErr"}},
			"r.NetworkInstanceRIB":   {results: []string{"$0", "§niKnown@0"}},
			"*.GetNextHop":           {results: []string{"$0", "§nhExists@recv,0"}},
			"*.GetNextHopGroup":      {results: []string{"$0", "§nhgExists@recv,0"}},
			"*.nhgExists":            {results: []string{"§nhgExists@recv,0"}},
			"*.nhExists":             {results: []string{"§nhExists@recv,0"}},
			"*.nhgReferenced":        {results: []string{"§nhgReferenced@recv,0"}},
			"*.nhReferenced":         {results: []string{"§nhReferenced@recv,0"}},
		},
		subst: map[string]string{"r.defaultName": "§defaultName"},
	},
	{
		file: "fluent/fluent.go", goName: "entriesToModifyRequest", callAs: "g.entriesToModifyRequest", leanName: "entriesToModifyRequest",
		params: []param{
			{goName: "op", goType: "spb.AFTOperation_Operation", lean: "op", kd: kEnum},
			// each entry is represented by what its OpProto() returns (nil = it fails)
			{goName: "entries", goType: "[]GRIBIEntry", lean: "entries", kd: kind{k: "list", s: "AFTOperation", optElems: true}},
		},
		goRets: "*spb.ModifyRequest, error", rets: []string{"ptr:ModifyRequestF", "err"},
		oracleParams: []param{
			{goName: "§parent", lean: "parent", kd: kPtr("Unit")},
			{goName: "§conn", lean: "conn", kd: kPtr("gRIBIConnection")},
			{goName: "§curElec", lean: "curElec", kd: kPtr("Uint128")},
			{goName: "§opErr", lean: "opErr", kd: kind{k: "statusval"}},
		},
		oracles: map[string]oracle{"*.OpProto": {results: []string{"@self", "§opErr"}, errOf: true}},
		subst:   map[string]string{"g.parent": "§parent", "g.parent.connection": "§conn", "g.parent.currentElectionID": "§curElec"},
		state:   []stateField{{goExpr: "g.parent.opCount", lean: "opCount", kd: kNat}},
		consts:  map[string]string{"ElectedPrimaryClient": "2"},
		typeMap: map[string]string{"ModifyRequest": "ModifyRequestF"},
	},
	{
		file: "server/server.go", goName: "isNewMaster", callAs: "isNewMaster", leanName: "isNewMaster",
		params: []param{
			{goName: "cand", goType: "*spb.Uint128", lean: "cand", kd: kPtr("Uint128"), nonnil: true},
			{goName: "exist", goType: "*spb.Uint128", lean: "exist", kd: kPtr("Uint128")},
		},
		goRets: "bool, bool, error", rets: []string{"bool", "bool", "err"},
	},
	{
		file: "server/server.go", goName: "checkElectionForModify", callAs: "checkElectionForModify", leanName: "checkElectionForModify",
		params: []param{
			{goName: "opID", goType: "uint64", lean: "opID", kd: kNat},
			{goName: "opElecID", goType: "*spb.Uint128", lean: "opElecID", kd: kPtr("Uint128")},
			{goName: "election", goType: "*electionDetails", lean: "election", kd: kPtr("electionDetails")},
		},
		goRets: "*spb.ModifyResponse, bool, error", rets: []string{"mresp", "bool", "err"},
	},
	{
		file: "server/server.go", goName: "modifyEntry", callAs: "modifyEntry", leanName: "modifyEntry",
		params: []param{
			{goName: "r", goType: "*rib.RIB", lean: "r", kd: kPtr("Unit")},
			{goName: "ni", goType: "string", lean: "ni", kd: kStr},
			{goName: "op", goType: "*spb.AFTOperation", lean: "op", kd: kPtr("AFTOperation")},
			{goName: "fibACK", goType: "bool", lean: "fibACK", kd: kBool},
			{goName: "election", goType: "*electionDetails", lean: "election", kd: kPtr("electionDetails")},
		},
		goRets: "*spb.ModifyResponse, error", rets: []string{"mresp", "err"},
		oracleParams: []param{
			{goName: "§niR", lean: "niR", kd: kPtr("Unit")},
			{goName: "§niOk", lean: "niOk", kd: kBool},
			{goName: "§niValid", lean: "niValid", kd: kBool},
			{goName: "§addOks", lean: "addOks", kd: kind{k: "list", s: "OpResult", elemNN: true}},
			{goName: "§addFails", lean: "addFails", kd: kind{k: "list", s: "OpResult", elemNN: true}},
			{goName: "§addErr", lean: "addErr", kd: kind{k: "status"}},
			{goName: "§delOks", lean: "delOks", kd: kind{k: "list", s: "OpResult", elemNN: true}},
			{goName: "§delFails", lean: "delFails", kd: kind{k: "list", s: "OpResult", elemNN: true}},
			{goName: "§delErr", lean: "delErr", kd: kind{k: "status"}},
		},
		oracles: map[string]oracle{
			"r.NetworkInstanceRIB": {results: []string{"§niR", "§niOk"}},
			"niR.IsValid":          {results: []string{"§niValid"}},
			"r.AddEntry":           {results: []string{"§addOks", "§addFails", "§addErr"}, effect: "addEntry"},
			"r.DeleteEntry":        {results: []string{"§delOks", "§delFails", "§delErr"}, effect: "deleteEntry"},
		},
		effects: true,
	},
	{
		// one iteration of the Modify receive loop, after a message has been read
		file: "server/server.go", goName: "Modify", callAs: "§Modify", leanName: "modifyDispatch", loop: true,
		oracleParams: []param{
			{goName: "cid", lean: "cid", kd: kStr},
			{goName: "in", lean: "msg", kd: kPtr("ModifyRequest")},
			{goName: "gotmsg", lean: "gotmsg", kd: kBool},
			{goName: "§cpRes", lean: "cpRes", kd: kind{k: "mresp"}},
			{goName: "§cpErr", lean: "cpErr", kd: kind{k: "status"}},
			{goName: "§upErr", lean: "upErr", kd: kind{k: "status"}},
			{goName: "§elRes", lean: "elRes", kd: kind{k: "mresp"}},
			{goName: "§elErr", lean: "elErr", kd: kind{k: "status"}},
		},
		oracles: map[string]oracle{
			"s.checkParams": {results: []string{"§cpRes", "§cpErr"}, effect: "checkParams"},
			"s.updateParams": {results: []string{"§upErr"}, effect: "updateParams"},
			"s.runElection":  {results: []string{"§elRes", "§elErr"}, effect: "runElection"},
			"s.doModify":     {results: []string{}, effect: "doModify", args: []int{0}},
		},
		effects: true,
	},
	{
		file: "server/server.go", goName: "Flush", callAs: "s.Flush", leanName: "flush",
		params: []param{
			{goName: "ctx", goType: "context.Context", lean: "ctx", kd: kStr, skip: true},
			{goName: "req", goType: "*spb.FlushRequest", lean: "req", kd: kPtr("FlushRequest")},
		},
		goRets: "*spb.FlushResponse, error", rets: []string{"fresp", "err"},
		oracleParams: []param{
			{goName: "§chkErr", lean: "chkErr", kd: kind{k: "status"}},
			{goName: "§known", lean: "known", kd: kind{k: "list", s: "String"}},
			{goName: "§niR", lean: "niR", kd: kPtr("Unit")},
			{goName: "§niKnown", lean: "niKnown", kd: kind{k: "fun", t: []kind{kBool, kStr}}},
			{goName: "§flushErr", lean: "flushErr", kd: kind{k: "status"}},
		},
		oracles: map[string]oracle{
			"s.checkFlushRequest":                {results: []string{"§chkErr"}},
			"s.masterRIB.KnownNetworkInstances": {results: []string{"§known"}},
			"s.masterRIB.NetworkInstanceRIB":    {results: []string{"§niR", "§niKnown@0"}},
			"s.masterRIB.Flush":                  {results: []string{"§flushErr"}, effect: "flush"},
		},
		effects: true,
	},
	{
		file: "server/server.go", goName: "checkFlushRequest", callAs: "s.checkFlushRequest", leanName: "checkFlushRequest",
		params: []param{
			{goName: "req", goType: "*spb.FlushRequest", lean: "req", kd: kPtr("FlushRequest")},
		},
		goRets: "error", rets: []string{"err"},
		// s.getElection() builds a fresh, non-nil electionDetails from curMaster / curElecID
		oracleParams: []param{{goName: "§curElecID", lean: "curElecID", kd: kPtr("Uint128")}},
		subst:        map[string]string{"s.getElection().ID": "§curElecID"},
	},
	{
		file: "server/server.go", goName: "checkParams", callAs: "s.checkParams", leanName: "checkParams",
		params: []param{
			{goName: "id", goType: "string", lean: "id", kd: kStr},
			{goName: "p", goType: "*spb.SessionParameters", lean: "p", kd: kPtr("SessionParameters")},
			{goName: "gotMsg", goType: "bool", lean: "gotMsg", kd: kBool},
		},
		goRets: "*spb.ModifyResponse, error", rets: []string{"mresp", "err"},
		oracleParams: []param{
			{goName: "§consistent", lean: "consistent", kd: kBool},
			{goName: "§consErr", lean: "consErr", kd: kind{k: "status"}},
			{goName: "§setErr", lean: "setErr", kd: kind{k: "status"}},
		},
		oracles: map[string]oracle{
			"s.checkClientsConsistent": {results: []string{"§consistent", "§consErr"}, effect: "checkClientsConsistent"},
			"s.setClientParams":        {results: []string{"§setErr"}, effect: "setClientParams"},
		},
		effects: true,
	},
	{
		file: "server/server.go", goName: "runElection", callAs: "s.runElection", leanName: "runElection",
		params: []param{
			{goName: "id", goType: "string", lean: "id", kd: kStr},
			{goName: "elecID", goType: "*spb.Uint128", lean: "elecID", kd: kPtr("Uint128"), nonnil: true},
		},
		goRets: "*spb.ModifyResponse, error", rets: []string{"mresp", "err"},
		oracleParams: []param{
			{goName: "§cs", lean: "cs", kd: kPtr("clientState")},
			{goName: "§csErr", lean: "csErr", kd: kind{k: "statusval"}},
			{goName: "§stored", lean: "stored", kd: kBool},
		},
		oracles: map[string]oracle{
			"s.getClientStateCopy":    {results: []string{"§cs", "§csErr"}, errOf: true},
			"s.storeClientElectionID": {results: []string{"§stored"}, effect: "storeClientElectionID", ownLock: true},
		},
		state: []stateField{
			{goExpr: "s.curElecID", lean: "curElecID", kd: kPtr("Uint128")},
			{goExpr: "s.curMaster", lean: "curMaster", kd: kStr},
		},
		// the comparison with the current id and the update are one step under the election lock
		holdLocks: []string{"s.elecMu"},
		effects:   true,
	},
}

// ---- the client's accounting (client/gribiclient.go)

var (
	clPend   = stateField{goExpr: "c.qs.pendq.Ops", lean: "pendOps", kd: kind{k: "map", s: "PendingOp", t: []kind{kNat}}}
	clElec   = stateField{goExpr: "c.qs.pendq.Election", lean: "pendElec", kd: kPtr("ElectionReqDetails")}
	clParams = stateField{goExpr: "c.qs.pendq.SessionParams", lean: "pendParams", kd: kPtr("SessionParamReqDetails")}
	clResq   = stateField{goExpr: "c.qs.resultq", lean: "resultq", kd: kind{k: "list", s: "COpResult", optElems: true}}
	// every call of unixTS() is represented by the same number: no translated decision reads a clock
	clNow   = param{goName: "§now", lean: "now", kd: kInt}
	clTreat = param{goName: "§treat", lean: "treat", kd: kBool}
	clSess  = param{goName: "§sessParams", lean: "sessParams", kd: kPtr("SessionParameters")}
	clOpFrom = param{goName: "§opFrom", lean: "opFrom", kd: kind{k: "fun", t: []kind{kEnum, kEnum}}}
	clOracles = map[string]oracle{
		"unixTS":                {results: []string{"§now"}},
		"constants.OpFromAFTOp": {results: []string{"§opFrom@0"}},
	}
	clSubst = map[string]string{"TreatRIBACKAsCompletedInFIBACKMode": "§treat", "c.state.SessParams": "§sessParams"}
	clTypes = map[string]string{"OpResult": "COpResult"}
)

var clientSpecs = []fnSpec{
	{
		file: "client/gribiclient.go", goName: "addPendingOp", recvType: "*Client", callAs: "c.addPendingOp", leanName: "addPendingOp",
		params:       []param{{goName: "op", goType: "*spb.AFTOperation", lean: "op", kd: kPtr("AFTOperationC"), nonnil: true}},
		goRets:       "error", rets: []string{"err"},
		oracleParams: []param{clNow},
		oracles:      clOracles,
		state:        []stateField{clPend},
	},
	{
		file: "client/gribiclient.go", goName: "updatePendingElection", recvType: "*Client", callAs: "c.updatePendingElection", leanName: "updatePendingElection",
		params:       []param{{goName: "id", goType: "*spb.Uint128", lean: "id", kd: kPtr("Uint128")}},
		goRets:       "", rets: []string{},
		oracleParams: []param{clNow},
		oracles:      clOracles,
		state:        []stateField{clElec},
	},
	{
		file: "client/gribiclient.go", goName: "pendingSessionParams", recvType: "*Client", callAs: "c.pendingSessionParams", leanName: "pendingSessionParams",
		params:       []param{{goName: "out", goType: "*spb.SessionParameters", lean: "out", kd: kPtr("SessionParameters")}},
		goRets:       "", rets: []string{},
		oracleParams: []param{clNow},
		oracles:      clOracles,
		state:        []stateField{clParams},
	},
	{
		file: "client/gribiclient.go", goName: "handleModifyRequest", recvType: "*Client", callAs: "c.handleModifyRequest", leanName: "handleModifyRequest",
		params:       []param{{goName: "m", goType: "*spb.ModifyRequest", lean: "m", kd: kPtr("ModifyRequestC"), nonnil: true}},
		goRets:       "error", rets: []string{"err"},
		oracleParams: []param{clNow},
		oracles:      clOracles,
		state:        []stateField{clPend, clElec, clParams},
	},
	{
		file: "client/gribiclient.go", goName: "clearPendingElection", recvType: "*Client", callAs: "c.clearPendingElection", leanName: "clearPendingElection",
		params:       []param{},
		goRets:       "*OpResult", rets: []string{"ptrnn:COpResult"},
		oracleParams: []param{clNow},
		oracles:      clOracles,
		state:        []stateField{clElec},
		typeMap:      clTypes,
	},
	{
		file: "client/gribiclient.go", goName: "clearPendingSessionParams", recvType: "*Client", callAs: "c.clearPendingSessionParams", leanName: "clearPendingSessionParams",
		params:       []param{},
		goRets:       "*OpResult", rets: []string{"ptrnn:COpResult"},
		oracleParams: []param{clNow},
		oracles:      clOracles,
		state:        []stateField{clParams},
		typeMap:      clTypes,
	},
	{
		file: "client/gribiclient.go", goName: "clearPendingOp", recvType: "*Client", callAs: "c.clearPendingOp", leanName: "clearPendingOp",
		params:       []param{{goName: "op", goType: "*spb.AFTResult", lean: "op", kd: kPtr("AFTResultC"), nonnil: true}},
		goRets:       "*OpResult, error", rets: []string{"ptr:COpResult", "err"},
		oracleParams: []param{clNow, clTreat, clSess, clOpFrom},
		oracles:      clOracles,
		subst:        clSubst,
		state:        []stateField{clPend},
		typeMap:      clTypes,
	},
	{
		file: "client/gribiclient.go", goName: "handleModifyResponse", recvType: "*Client", callAs: "c.handleModifyResponse", leanName: "handleModifyResponse",
		params:       []param{{goName: "m", goType: "*spb.ModifyResponse", lean: "m", kd: kPtr("ModifyResponseC")}},
		goRets:       "error", rets: []string{"err"},
		oracleParams: []param{clNow, clTreat, clSess, clOpFrom},
		oracles:      clOracles,
		subst:        clSubst,
		state:        []stateField{clPend, clElec, clParams, clResq},
		typeMap:      clTypes,
	},
}

var clientSpecs2 = []fnSpec{
	{
		file: "client/gribiclient.go", goName: "Q", recvType: "*Client", callAs: "c.Q", leanName: "clientQ",
		params:       []param{{goName: "m", goType: "*spb.ModifyRequest", lean: "m", kd: kPtr("ModifyRequestC"), nonnil: true}},
		goRets:       "", rets: []string{},
		oracleParams: []param{clNow, {goName: "§sending", lean: "sending", kd: kBool}},
		oracles: map[string]oracle{
			"unixTS":              {results: []string{"§now"}},
			"c.qs.sending.Load":   {results: []string{"§sending"}},
			"c.addSendErr":        {results: []string{}, effect: "addSendErr"},
			"c.q":                 {results: []string{}, effect: "clientq"},
		},
		state:   []stateField{clPend, clElec, clParams, {goExpr: "c.qs.sendq", lean: "sendq", kd: kind{k: "list", s: "ModifyRequestC", elemNN: true}}},
		effects: true,
	},
	{
		file: "client/gribiclient.go", goName: "Len", recvType: "*pendingQueue", recvIsParam: true, callAs: "*.Len", leanName: "pendingQueueLen",
		params: []param{{goName: "p", goType: "*pendingQueue", lean: "p", kd: kPtr("pendingQueue")}},
		goRets: "int", rets: []string{"nat"},
	},
	{
		file: "client/gribiclient.go", goName: "isConverged", recvType: "*Client", callAs: "c.isConverged", leanName: "isConverged",
		params: []param{},
		goRets: "bool", rets: []string{"bool"},
		oracleParams: []param{
			{goName: "§sendq", lean: "sendq", kd: kind{k: "list", s: "ModifyRequestC", elemNN: true}},
			{goName: "§pendq", lean: "pendq", kd: kPtr("pendingQueue")},
		},
		subst: map[string]string{"c.qs.sendq": "§sendq", "c.qs.pendq": "§pendq"},
	},
}

// ---- the RIB's orchestration of an ADD / REPLACE (rib/rib.go)

var (
	ribPend  = stateField{goExpr: "r.pendingEntries", lean: "pending", kd: kind{k: "map", s: "pendingEntry", t: []kind{kNat}}}
	ribOks   = stateField{goExpr: "*oks", lean: "oks", kd: kind{k: "list", s: "RibOpResult", elemNN: true}}
	ribFails = stateField{goExpr: "*fails", lean: "fails", kd: kind{k: "list", s: "RibOpResult", elemNN: true}}
	ribStack = stateField{goExpr: "installStack", lean: "installStack", kd: kind{k: "set"}}
)


// rib.Flush. A RIBHolder is represented by the name of its network instance, as in DeleteEntry.
// The five tables of an instance are read where the Go code ranges over them: each place is an
// oracle (a function of the instance name), and the group table, which is read again after the
// backup groups have been deleted, is a different oracle there (#2). Declared precondition: the
// instances named exist (the server's Flush checks that before it calls; with an unknown name the
// Go code logs and then dereferences a nil holder).
var ribFlushSpec = fnSpec{
	file: "rib/rib.go", goName: "Flush", recvType: "*RIB", callAs: "r.Flush§", leanName: "ribFlush", valueLoops: true, inlineClosures: true,
	params: []param{{goName: "networkInstances", goType: "[]string", lean: "networkInstances", kd: kind{k: "list", s: "String"}}},
	goRets: "error", rets: []string{"ptr:FlushErr"},
	oracleParams: []param{
		{goName: "§v4", lean: "v4", kd: kind{k: "fun", t: []kind{{k: "map", s: "OrigTop", t: []kind{kStr}}, kStr}}},
		{goName: "§v6", lean: "v6", kd: kind{k: "fun", t: []kind{{k: "map", s: "OrigTop", t: []kind{kStr}}, kStr}}},
		{goName: "§mpls", lean: "mpls", kd: kind{k: "fun", t: []kind{{k: "map", s: "OrigTop", t: []kind{kNat}}, kStr}}},
		{goName: "§nhgs", lean: "nhgs", kd: kind{k: "fun", t: []kind{{k: "map", s: "FlNHG", t: []kind{kNat}}, kStr}}},
		{goName: "§nhgsRest", lean: "nhgsRest", kd: kind{k: "fun", t: []kind{{k: "map", s: "FlNHG", t: []kind{kNat}}, kStr}}},
		{goName: "§nhs", lean: "nhs", kd: kind{k: "fun", t: []kind{{k: "map", s: "Unit", t: []kind{kNat}}, kStr}}},
		{goName: "§refName", lean: "refName", kd: kind{k: "fun", t: []kind{kStr, kStr, kStr}}},
		{goName: "§refErr", lean: "refErr", kd: kind{k: "fun", t: []kind{kind{k: "status"}, kStr, kStr}}},
		{goName: "§del4", lean: "del4", kd: kind{k: "fun", t: []kind{kind{k: "status"}, kStr, kStr}}},
		{goName: "§del6", lean: "del6", kd: kind{k: "fun", t: []kind{kind{k: "status"}, kStr, kStr}}},
		{goName: "§delM", lean: "delM", kd: kind{k: "fun", t: []kind{kind{k: "status"}, kStr, kNat}}},
		{goName: "§delG", lean: "delG", kd: kind{k: "fun", t: []kind{kind{k: "status"}, kStr, kNat}}},
		{goName: "§delH", lean: "delH", kd: kind{k: "fun", t: []kind{kind{k: "status"}, kStr, kNat}}},
	},
	oracles: map[string]oracle{
		"r.NetworkInstanceRIB":    {results: []string{"$0", "true"}},
		"r.refdRIB":               {results: []string{"§refName@0,1", "§refErr@0,1"}},
		"*.decNHGRefCount":        {results: []string{}, effect: "decNHGRef", args: []int{-1, 0}},
		"niR.locklessDeleteIPv4":  {results: []string{"§del4@recv,0"}, effect: "flDelStr:4", args: []int{-1, 0}},
		"niR.locklessDeleteIPv6":  {results: []string{"§del6@recv,0"}, effect: "flDelStr:6", args: []int{-1, 0}},
		"niR.locklessDeleteMPLS":  {results: []string{"§delM@recv,0"}, effect: "flDelNat:1", args: []int{-1, 0}},
		"niR.locklessDeleteNHG":   {results: []string{"§delG@recv,0"}, effect: "flDelNat:2", args: []int{-1, 0}},
		"niR.locklessDeleteNH":    {results: []string{"§delH@recv,0"}, effect: "flDelNat:3", args: []int{-1, 0}},
	},
	subst: map[string]string{
		"niR.r.Afts.Ipv4Entry":      "§v4@niR",
		"niR.r.Afts.Ipv6Entry":      "§v6@niR",
		"niR.r.Afts.LabelEntry":     "§mpls@niR",
		"niR.r.Afts.NextHopGroup#1": "§nhgs@niR",
		"niR.r.Afts.NextHopGroup#2": "§nhgs@niR",
		"niR.r.Afts.NextHopGroup#3": "§nhgsRest@niR",
		"niR.r.Afts.NextHop":        "§nhs@niR",
	},
	holdLocks: []string{"r.txMu", "niR.mu"},
	effects: true,
	typeMap: map[string]string{"aft.Afts_NextHopGroup": "FlNHG"},
}


// RIBHolder.GetRIB. The tables are read where the Go code ranges over them (under the instance's
// read lock: holdLocks), the conversions of the installed entries to protobufs are oracles, and
// each select statement is decided by an oracle: whether the reader has gone away when an entry is
// reached (stop…, a function of the entry's key), and whether a message is delivered or the reader
// goes away first (delivered, a function of the message).
var ribGetRIBSpec = fnSpec{
	file: "rib/rib.go", goName: "GetRIB", recvType: "*RIBHolder", callAs: "niR.GetRIB§", leanName: "getRIB", valueLoops: true, joins: true,
	params: []param{
		{goName: "filter", goType: "map[spb.AFTType]bool", lean: "filter", kd: kind{k: "set"}},
		{goName: "msgCh", goType: "chan *spb.GetResponse", lean: "msgCh", kd: kStr, skip: true},
		{goName: "stopCh", goType: "chan struct{}", lean: "stopCh", kd: kStr, skip: true},
	},
	goRets: "error", rets: []string{"err"},
	oracleParams: []param{
		{goName: "§name", lean: "name", kd: kStr},
		{goName: "§v4", lean: "v4", kd: kind{k: "map", s: "TblEntry", t: []kind{kStr}}},
		{goName: "§v6", lean: "v6", kd: kind{k: "map", s: "TblEntry", t: []kind{kStr}}},
		{goName: "§mpls", lean: "mpls", kd: kind{k: "map", s: "TblEntry", t: []kind{kNat}}},
		{goName: "§nhgs", lean: "nhgs", kd: kind{k: "map", s: "TblEntry", t: []kind{kNat}}},
		{goName: "§nhs", lean: "nhs", kd: kind{k: "map", s: "TblEntry", t: []kind{kNat}}},
		{goName: "§conv4", lean: "conv4", kd: kind{k: "fun", t: []kind{kPtr("GPrefix"), kPtr("TblEntry")}}},
		{goName: "§conv4Err", lean: "conv4Err", kd: kind{k: "fun", t: []kind{{k: "statusval"}, kPtr("TblEntry")}}},
		{goName: "§conv6", lean: "conv6", kd: kind{k: "fun", t: []kind{kPtr("GPrefix"), kPtr("TblEntry")}}},
		{goName: "§conv6Err", lean: "conv6Err", kd: kind{k: "fun", t: []kind{{k: "statusval"}, kPtr("TblEntry")}}},
		{goName: "§convM", lean: "convM", kd: kind{k: "fun", t: []kind{kPtr("GLabel"), kPtr("TblEntry")}}},
		{goName: "§convMErr", lean: "convMErr", kd: kind{k: "fun", t: []kind{{k: "statusval"}, kPtr("TblEntry")}}},
		{goName: "§convG", lean: "convG", kd: kind{k: "fun", t: []kind{kPtr("GId"), kPtr("TblEntry")}}},
		{goName: "§convGErr", lean: "convGErr", kd: kind{k: "fun", t: []kind{{k: "statusval"}, kPtr("TblEntry")}}},
		{goName: "§convH", lean: "convH", kd: kind{k: "fun", t: []kind{kPtr("GIndex"), kPtr("TblEntry")}}},
		{goName: "§convHErr", lean: "convHErr", kd: kind{k: "fun", t: []kind{{k: "statusval"}, kPtr("TblEntry")}}},
		{goName: "§delivered", lean: "delivered", kd: kind{k: "fun", t: []kind{kBool, kPtr("GetResponseG")}}},
		{goName: "§stop4", lean: "stop4", kd: kind{k: "fun", t: []kind{kBool, kStr}}},
		{goName: "§stop6", lean: "stop6", kd: kind{k: "fun", t: []kind{kBool, kStr}}},
		{goName: "§stopM", lean: "stopM", kd: kind{k: "fun", t: []kind{kBool, kNat}}},
		{goName: "§stopG", lean: "stopG", kd: kind{k: "fun", t: []kind{kBool, kNat}}},
		{goName: "§stopH", lean: "stopH", kd: kind{k: "fun", t: []kind{kBool, kNat}}},
	},
	oracles: map[string]oracle{
		"ConcreteIPv4Proto":         {results: []string{"§conv4@0", "§conv4Err@0"}, errOf: true},
		"ConcreteIPv6Proto":         {results: []string{"§conv6@0", "§conv6Err@0"}, errOf: true},
		"ConcreteMPLSProto":         {results: []string{"§convM@0", "§convMErr@0"}, errOf: true},
		"ConcreteNextHopGroupProto": {results: []string{"§convG@0", "§convGErr@0"}, errOf: true},
		"ConcreteNextHopProto":      {results: []string{"§convH@0", "§convHErr@0"}, errOf: true},
	},
	subst: map[string]string{
		"r.name":                "§name",
		"r.r.Afts.Ipv4Entry":    "§v4",
		"r.r.Afts.Ipv6Entry":    "§v6",
		"r.r.Afts.LabelEntry":   "§mpls",
		"r.r.Afts.NextHopGroup": "§nhgs",
		"r.r.Afts.NextHop":      "§nhs",
	},
	selects:   map[int]string{1: "§delivered@m", 2: "§stop4@pfx", 3: "§stop6@pfx", 4: "§stopM@lbl", 5: "§stopG@index", 6: "§stopH@id"},
	chanSends: map[string]string{"msgCh": "getEmit"},
	holdLocks: []string{"r.mu"},
	unguarded: map[string]bool{"r.name": true},
	effects:   true,
	typeMap:   map[string]string{"GetResponse": "GetResponseG", "AFTEntry": "GAFTEntry"},
	oneofView: "GEntryKind",
}


// the reference counters of a RIBHolder (maps of uint64 counters) and the lookup of the instance an
// entry's group lives in
func refCountSpec(goName, lean, table string, ret bool) fnSpec {
	sp := fnSpec{
		file: "rib/rib.go", goName: goName, recvType: "*RIBHolder", callAs: "niR." + goName + "§", leanName: lean,
		params: []param{{goName: "i", goType: "uint64", lean: "i", kd: kNat}},
		goRets: "", rets: []string{},
		state:  []stateField{{goExpr: "r.refCounts." + table, lean: "counts", kd: kind{k: "map", s: "Nat", t: []kind{kNat}}}},
	}
	if ret {
		sp.goRets, sp.rets = "bool", []string{"bool"}
	}
	return sp
}

var ribRefCountSpecs = []fnSpec{
	refCountSpec("incNHGRefCount", "incNHGRefCount", "NextHopGroup", false),
	refCountSpec("decNHGRefCount", "decNHGRefCount", "NextHopGroup", false),
	refCountSpec("nhgReferenced", "nhgReferenced", "NextHopGroup", true),
	refCountSpec("incNHRefCount", "incNHRefCount", "NextHop", false),
	refCountSpec("decNHRefCount", "decNHRefCount", "NextHop", false),
	refCountSpec("nhReferenced", "nhReferenced", "NextHop", true),
	{
		file: "rib/rib.go", goName: "refdRIB", recvType: "*RIB", callAs: "r.refdRIB§", leanName: "refdRIB",
		params: []param{
			// a RIBHolder is represented by the name of its network instance
			{goName: "ni", goType: "*RIBHolder", lean: "ni", kd: kStr},
			{goName: "ref", goType: "string", lean: "ref", kd: kStr},
		},
		goRets: "*RIBHolder, error", rets: []string{"ptr:String", "err"},
		oracleParams: []param{{goName: "§niKnown", lean: "niKnown", kd: kind{k: "fun", t: []kind{kBool, kStr}}}},
		oracles:      map[string]oracle{"r.NetworkInstanceRIB": {results: []string{"$0", "§niKnown@0"}}},
	},
}


// chk's error helpers. An error value is represented by what the helpers look at: nil, or a value
// that either is a *client.ClientErr (AsClientErr) or is not. (A *client.ClientErr that is itself a
// nil pointer is outside the representation: the Go code would dereference it.)
var chkErrSpecs = []fnSpec{
	{
		file: "chk/chk.go", goName: "clientError", callAs: "clientError", leanName: "clientError", fatalNil: true,
		params: []param{
			{goName: "t", goType: "testing.TB", lean: "t", kd: kStr, skip: true},
			{goName: "err", goType: "error", lean: "err", kd: kPtr("ErrView")},
		},
		goRets: "*client.ClientErr", rets: []string{"ptr:ClientErrG"},
		assertPtrFields: map[string]string{"err.(*client.ClientErr)": "AsClientErr"},
	},
	{
		file: "chk/chk.go", goName: "HasNSendErrors", callAs: "HasNSendErrors§", leanName: "hasNSendErrors", tbFatal: true,
		params: []param{
			{goName: "t", goType: "testing.TB", lean: "t", kd: kStr, skip: true},
			{goName: "err", goType: "error", lean: "err", kd: kPtr("ErrView")},
			{goName: "count", goType: "int", lean: "count", kd: kNat},
		},
		goRets: "", rets: []string{"bool"},
	},
	{
		file: "chk/chk.go", goName: "HasNRecvErrors", callAs: "HasNRecvErrors§", leanName: "hasNRecvErrors", tbFatal: true,
		params: []param{
			{goName: "t", goType: "testing.TB", lean: "t", kd: kStr, skip: true},
			{goName: "err", goType: "error", lean: "err", kd: kPtr("ErrView")},
			{goName: "count", goType: "int", lean: "count", kd: kNat},
		},
		goRets: "", rets: []string{"bool"},
	},
	{
		file: "chk/chk.go", goName: "HasRecvClientErrorWithStatus", callAs: "HasRecvClientErrorWithStatus§", leanName: "hasRecvStatus", tbFatal: true, valueLoops: true,
		params: []param{
			{goName: "t", goType: "testing.TB", lean: "t", kd: kStr, skip: true},
			{goName: "err", goType: "error", lean: "err", kd: kPtr("ErrView")},
			{goName: "want", goType: "*status.Status", lean: "want", kd: kPtr("GStatus"), nonnil: true},
			{goName: "opts", goType: "...ErrorOpt", lean: "opts", kd: kind{k: "list", s: "ErrOptG", elemNN: true}},
		},
		goRets: "", rets: []string{"bool"},
		// what status.FromError makes of a receive error is how the error is represented
		oracles: map[string]oracle{"status.FromError": {results: []string{"$0", "$0"}, okOf: true}},
		assertBoolFields: map[string]string{"o.(*allowUnimplemented)": "IsAllowUnimplemented", "o.(*ignoreDetails)": "IsIgnoreDetails"},
		statusViews:      true,
		typeMap:          map[string]string{"gspb.Status": "GStatus", "status.Status": "GStatus"},
		consts:           map[string]string{},
	},
}


// the registry of network instances of a RIB (r.niRIB, guarded by r.nrMu)
var ribRegistrySpecs = []fnSpec{
	{
		file: "rib/rib.go", goName: "NetworkInstanceRIB", recvType: "*RIB", callAs: "r.NetworkInstanceRIB§", leanName: "networkInstanceRIB",
		params: []param{{goName: "s", goType: "string", lean: "s", kd: kStr}},
		goRets: "*RIBHolder, bool", rets: []string{"ptr:HolderG", "bool"},
		state:  []stateField{{goExpr: "r.niRIB", lean: "niRIB", kd: kind{k: "map", s: "HolderG", t: []kind{kStr}}}},
		holdLocks: []string{"r.nrMu"},
	},
	{
		file: "rib/rib.go", goName: "KnownNetworkInstances", recvType: "*RIB", callAs: "r.KnownNetworkInstances§", leanName: "knownNetworkInstances",
		params: []param{},
		goRets: "[]string", rets: []string{"list:String"},
		state:  []stateField{{goExpr: "r.niRIB", lean: "niRIB", kd: kind{k: "map", s: "HolderG", t: []kind{kStr}}}},
		holdLocks: []string{"r.nrMu"},
	},
	{
		file: "rib/rib.go", goName: "AddNetworkInstance", recvType: "*RIB", callAs: "r.AddNetworkInstance§", leanName: "addNetworkInstance",
		params: []param{{goName: "name", goType: "string", lean: "name", kd: kStr}},
		goRets: "error", rets: []string{"err"},
		state:  []stateField{{goExpr: "r.niRIB", lean: "niRIB", kd: kind{k: "map", s: "HolderG", t: []kind{kStr}}}},
		oracleParams: []param{
			{goName: "§ribCheck", lean: "ribCheck", kd: kBool},
			{goName: "§noFwd", lean: "noFwd", kd: kBool},
			{goName: "§hook", lean: "hook", kd: kPtr("Unit")},
			{goName: "§checkFn", lean: "checkFn", kd: kPtr("Unit")},
			{goName: "§newHolder", lean: "newHolder", kd: kind{k: "fun", t: []kind{kPtrNN("HolderG"), kStr, {k: "list", s: "Nat", elemNN: true}}}},
		},
		// a holder option is represented by a number: 1 = the RIB's check function, 2 = no forward references
		oracles: map[string]oracle{
			"RIBHolderCheckFn":         {results: []string{"#1"}},
			"DisableForwardReferences": {results: []string{"#2"}},
			"NewRIBHolder":             {results: []string{"§newHolder@0,1"}},
		},
		subst:        map[string]string{"r.ribCheck": "§ribCheck", "r.disableForwardReferences": "§noFwd", "r.postChangeHook": "§hook", "r.checkFn": "§checkFn"},
		natListTypes: map[string]bool{"ribHolderOpt": true},
		typeMap:      map[string]string{"RIBHolder": "HolderG"},
		holdLocks:    []string{"r.nrMu"},
	},
}

var ribSpecs = []fnSpec{
	{
		file: "rib/rib.go", goName: "getPending", recvType: "*RIB", callAs: "r.getPending", leanName: "getPending",
		params: []param{},
		goRets: "[]*pendingEntry", rets: []string{"list:pendingEntry"},
		state:  []stateField{ribPend},
	},
	{
		file: "rib/rib.go", goName: "addPending", recvType: "*RIB", callAs: "r.addPending", leanName: "addPending",
		params: []param{
			{goName: "id", goType: "uint64", lean: "id", kd: kNat},
			{goName: "e", goType: "*pendingEntry", lean: "e", kd: kPtr("pendingEntry"), nonnil: true},
		},
		goRets: "", rets: []string{},
		state:  []stateField{ribPend},
	},
	{
		file: "rib/rib.go", goName: "rmPending", recvType: "*RIB", callAs: "r.rmPending", leanName: "rmPending",
		params: []param{{goName: "id", goType: "uint64", lean: "id", kd: kNat}},
		goRets: "", rets: []string{},
		state:  []stateField{ribPend},
	},
	{
		file: "rib/rib.go", goName: "addEntryInternal", recvType: "*RIB", callAs: "r.addEntryInternal", leanName: "addEntryInternal", selfRec: true, joins: true,
		params: []param{
			{goName: "ni", goType: "string", lean: "ni", kd: kStr},
			{goName: "op", goType: "*spb.AFTOperation", lean: "op", kd: kPtr("AFTOperationC"), nonnil: true},
			{goName: "oks", goType: "*[]*OpResult", lean: "oksP", kd: kStr, skip: true},
			{goName: "fails", goType: "*[]*OpResult", lean: "failsP", kd: kStr, skip: true},
			{goName: "installStack", goType: "map[uint64]bool", lean: "stackP", kd: kStr, skip: true},
		},
		goRets: "error", rets: []string{"err"},
		oracleParams: []param{
			{goName: "§niKnown", lean: "niKnown", kd: kind{k: "fun", t: []kind{kBool, kStr}}},
			{goName: "§niValid", lean: "niValid", kd: kind{k: "fun", t: []kind{kBool, kStr}}},
			{goName: "§done", lean: "done", kd: kBool},
			{goName: "§orig", lean: "orig", kd: kPtr("Unit")},
			{goName: "§addErr", lean: "addErr", kd: kind{k: "status"}},
			{goName: "§hookErr", lean: "hookErr", kd: kind{k: "status"}},
			{goName: "§noFwd", lean: "noFwd", kd: kBool},
		},
		// a RIBHolder is represented by the name of its network instance
		oracles: map[string]oracle{
			"r.NetworkInstanceRIB":     {results: []string{"$0", "§niKnown@0"}},
			"niR.IsValid":              {results: []string{"§niValid@recv"}},
			"niR.AddIPv4":              {results: []string{"§done", "§orig", "§addErr"}, effect: "addIPv4", args: []int{-1, 0, 1}},
			"niR.AddIPv6":              {results: []string{"§done", "§orig", "§addErr"}, effect: "addIPv6", args: []int{-1, 0, 1}},
			"niR.AddMPLS":              {results: []string{"§done", "§orig", "§addErr"}, effect: "addMPLS", args: []int{-1, 0, 1}},
			"niR.AddNextHopGroup":      {results: []string{"§done", "§orig", "§addErr"}, effect: "addNHG", args: []int{-1, 0, 1}},
			"niR.AddNextHop":           {results: []string{"§done", "§orig", "§addErr"}, effect: "addNH", args: []int{-1, 0, 1}},
			"handleReferences":         {results: []string{}, effect: "handleReferences", args: []int{1, 2, 3}},
			"r.handleNHGReferences":    {results: []string{}, effect: "handleNHGReferences", args: []int{0, 1, 2}},
			"r.callResolvedEntryHook":  {results: []string{"§hookErr"}, effect: "resolvedHook"},
		},
		subst:     map[string]string{"r.disableForwardReferences": "§noFwd"},
		state:     []stateField{ribOks, ribFails, ribStack, ribPend},
		effects:   true,
		typeMap:   map[string]string{"OpResult": "RibOpResult"},
		extConsts: map[string]string{"constants.Add": "1", "constants.IPv4": "2", "constants.MPLS": "5", "constants.IPv6": "6"},
	},
}

var ribDelSpec = fnSpec{
	file: "rib/rib.go", goName: "DeleteEntry", recvType: "*RIB", callAs: "r.DeleteEntry", leanName: "deleteEntry", joins: true,
	// the judgement, the removal and the counter changes are one transaction: all recorded calls under txMu
	holdLocks: []string{"r.txMu"},
	params: []param{
		{goName: "ni", goType: "string", lean: "ni", kd: kStr},
		{goName: "op", goType: "*spb.AFTOperation", lean: "op", kd: kPtr("AFTOperationC")},
	},
	goRets: "[]*OpResult, []*OpResult, error", rets: []string{"list:RibOpResult", "list:RibOpResult", "err"},
	oracleParams: []param{
		{goName: "§niKnown", lean: "niKnown", kd: kind{k: "fun", t: []kind{kBool, kStr}}},
		{goName: "§niValid", lean: "niValid", kd: kind{k: "fun", t: []kind{kBool, kStr}}},
		{goName: "§removed", lean: "removed", kd: kBool},
		{goName: "§origTop", lean: "origTop", kd: kPtr("OrigTop")},
		{goName: "§origNHG", lean: "origNHG", kd: kPtr("OrigNHG")},
		{goName: "§delErr", lean: "delErr", kd: kind{k: "status"}},
		{goName: "§refName", lean: "refName", kd: kind{k: "fun", t: []kind{kStr, kStr, kStr}}},
		{goName: "§refErr", lean: "refErr", kd: kind{k: "fun", t: []kind{kind{k: "status"}, kStr, kStr}}},
		{goName: "§hookErr", lean: "hookErr", kd: kind{k: "status"}},
	},
	// a RIBHolder is represented by the name of its network instance
	oracles: map[string]oracle{
		"r.NetworkInstanceRIB":    {results: []string{"$0", "§niKnown@0"}},
		"niR.IsValid":             {results: []string{"§niValid@recv"}},
		"niR.DeleteIPv4":          {results: []string{"§removed", "§origTop", "§delErr"}, effect: "delIPv4", args: []int{-1, 0}},
		"niR.DeleteIPv6":          {results: []string{"§removed", "§origTop", "§delErr"}, effect: "delIPv6", args: []int{-1, 0}},
		"niR.DeleteMPLS":          {results: []string{"§removed", "§origTop", "§delErr"}, effect: "delMPLS", args: []int{-1, 0}},
		"niR.DeleteNextHopGroup":  {results: []string{"§removed", "§origNHG", "§delErr"}, effect: "delNHG", args: []int{-1, 0}},
		"niR.DeleteNextHop":       {results: []string{"§removed", "§origNHG", "§delErr"}, effect: "delNH", args: []int{-1, 0}},
		"r.refdRIB":               {results: []string{"§refName@0,1", "§refErr@0,1"}},
		"*.decNHGRefCount":        {results: []string{}, effect: "decNHGRef", args: []int{-1, 0}},
		"*.decNHRefCount":         {results: []string{}, effect: "decNHRef", args: []int{-1, 0}},
		"r.callResolvedEntryHook": {results: []string{"§hookErr"}, effect: "resolvedHook"},
	},
	effects:   true,
	typeMap:   map[string]string{"OpResult": "RibOpResult"},
	extConsts: map[string]string{"constants.Delete": "2", "constants.IPv4": "2", "constants.MPLS": "5", "constants.IPv6": "6"},
}

var ribRefSpecs = []fnSpec{
	{
		file: "rib/rib.go", goName: "handleReferences", callAs: "handleReferences", leanName: "handleReferences", joins: true,
		params: []param{
			{goName: "r", goType: "*RIB", lean: "r", kd: kStr, skip: true},
			// a RIBHolder is represented by the name of its network instance
			{goName: "niRIB", goType: "*RIBHolder", lean: "niRIB", kd: kStr},
			{goName: "original", goType: "S", lean: "original", kd: kPtr("OrigTop")},
			{goName: "new", goType: "P", lean: "new", kd: kPtr("NewTop")},
		},
		goRets: "", rets: []string{},
		oracleParams: []param{
			{goName: "§refName", lean: "refName", kd: kind{k: "fun", t: []kind{kStr, kStr, kStr}}},
			{goName: "§refErr", lean: "refErr", kd: kind{k: "fun", t: []kind{kind{k: "status"}, kStr, kStr}}},
		},
		oracles: map[string]oracle{
			"r.refdRIB":        {results: []string{"§refName@0,1", "§refErr@0,1"}},
			"*.decNHGRefCount": {results: []string{}, effect: "decNHGRef", args: []int{-1, 0}},
			"*.incNHGRefCount": {results: []string{}, effect: "incNHGRef", args: []int{-1, 0}},
		},
		effects: true,
	},
	{
		file: "rib/rib.go", goName: "handleNHGReferences", recvType: "*RIB", callAs: "r.handleNHGReferences", leanName: "handleNHGReferences",
		params: []param{
			{goName: "niRIB", goType: "*RIBHolder", lean: "niRIB", kd: kStr},
			{goName: "original", goType: "*aft.Afts_NextHopGroup", lean: "original", kd: kPtr("OrigNHG")},
			{goName: "new", goType: "*aftpb.Afts_NextHopGroup", lean: "new", kd: kPtr("NewNHG"), nonnil: true},
		},
		goRets: "", rets: []string{},
		oracles: map[string]oracle{
			"*.decNHRefCount": {results: []string{}, effect: "decNHRef", args: []int{-1, 0}},
			"*.incNHRefCount": {results: []string{}, effect: "incNHRef", args: []int{-1, 0}},
		},
		effects: true,
	},
}

// the five table-level adds share one shape
func tableAddSpec(goName, lean, eType, eSchema, exists, retrieve, doAdd, origType string, kindNo string) fnSpec {
	return fnSpec{
		file: "rib/rib.go", goName: goName, recvType: "*RIBHolder", callAs: "niR." + goName + "§", leanName: lean, joins: true,
		params: []param{
			{goName: "e", goType: eType, lean: "e", kd: kPtr(eSchema)},
			{goName: "explicitReplace", goType: "bool", lean: "explicitReplace", kd: kBool},
		},
		goRets: "bool, " + origType + ", error", rets: []string{"bool", "ptr:Unit", "err"},
		oracleParams: []param{
			{goName: "§rr", lean: "rr", kd: kPtr("Unit")},
			{goName: "§nr", lean: "nr", kd: kPtr("NewRIB")},
			{goName: "§candErr", lean: "candErr", kd: kind{k: "statusval"}},
			{goName: "§exists", lean: "exists_", kd: kBool},
			{goName: "§installed", lean: "installed", kd: kPtr("Unit")},
			{goName: "§checkFn", lean: "checkFn", kd: kPtr("Unit")},
			{goName: "§checkOk", lean: "checkOk", kd: kBool},
			{goName: "§checkErr", lean: "checkErr", kd: kind{k: "status"}},
			{goName: "§doErr", lean: "doErr", kd: kind{k: "status"}},
			{goName: "§hook", lean: "hook", kd: kPtr("Unit")},
			{goName: "§name", lean: "name", kd: kStr},
			{goName: "§implicit", lean: "implicit", kd: kBool},
			{goName: "§now", lean: "now", kd: kInt},
		},
		oracles: map[string]oracle{
			"candidateRIB":      {results: []string{"§nr", "§candErr"}, errOf: true},
			"r." + exists:       {results: []string{"§exists"}},
			"r." + retrieve:     {results: []string{"§installed"}},
			"r.checkFn":         {results: []string{"§checkOk", "§checkErr"}},
			"r." + doAdd:        {results: []string{"§implicit", "§doErr"}, effect: "tableAdd:" + kindNo, args: []int{1}},
			"r.postChangeHook":  {results: []string{}, effect: "postHook", args: []int{0, 2, 3}},
			"unixTS":            {results: []string{"§now"}},
		},
		subst:     map[string]string{"r.r": "§rr", "r.checkFn": "§checkFn", "r.postChangeHook": "§hook", "r.name": "§name"},
		effects:   true,
		typeMap:   map[string]string{"installed": "Unit"},
		extConsts: map[string]string{"constants.Add": "1"},
	}
}

func tableDelSpec(goName, lean, eType, eSchema, retrieve, doDel, origType, kindNo string, withKeyCheck bool, extra map[string]string) fnSpec {
	sp := fnSpec{
		file: "rib/rib.go", goName: goName, recvType: "*RIBHolder", callAs: "niR." + goName + "§", leanName: lean, joins: true,
		params: []param{{goName: "e", goType: eType, lean: "e", kd: kPtr(eSchema)}},
		goRets: "bool, " + origType + ", error", rets: []string{"bool", "ptr:Unit", "err"},
		oracleParams: []param{
			{goName: "§rr", lean: "rr", kd: kPtr("Unit")},
			{goName: "§installed", lean: "installed", kd: kPtr("Unit")},
			{goName: "§keyErr", lean: "keyErr", kd: kind{k: "status"}},
			{goName: "§checkFn", lean: "checkFn", kd: kPtr("Unit")},
			{goName: "§checkOk", lean: "checkOk", kd: kBool},
			{goName: "§checkErr", lean: "checkErr", kd: kind{k: "status"}},
			{goName: "§hook", lean: "hook", kd: kPtr("Unit")},
			{goName: "§name", lean: "name", kd: kStr},
			{goName: "§now", lean: "now", kd: kInt},
			{goName: "§isUint", lean: "isUint", kd: kBool},
		},
		oracles: map[string]oracle{
			"r." + retrieve:              {results: []string{"§installed"}},
			"validKey":                   {results: []string{"§keyErr"}},
			"r.checkFn":                  {results: []string{"§checkOk", "§checkErr"}},
			"r." + doDel:                 {results: []string{}, effect: "tableDel:" + kindNo, args: []int{}},
			"r.postChangeHook":           {results: []string{}, effect: "postHookDel", args: []int{0, 2, 3}},
			"unixTS":                     {results: []string{"§now"}},
			"*.GetOrCreateIpv4Entry":     {results: []string{}},
			"*.GetOrCreateIpv6Entry":     {results: []string{}},
			"*.GetOrCreateLabelEntry":    {results: []string{}},
			"*.GetOrCreateNextHopGroup":  {results: []string{}},
			"*.GetOrCreateNextHop":       {results: []string{}},
		},
		subst:     map[string]string{"r.r": "§rr", "r.checkFn": "§checkFn", "r.postChangeHook": "§hook", "r.name": "§name"},
		effects:   true,
		typeMap:   map[string]string{"installed": "Unit", "aft.RIB": "KeyRIB"},
		extConsts: map[string]string{"constants.Delete": "2"},
	}
	for k, v := range extra {
		sp.subst[k] = v
	}
	return sp
}

var ribTableDelSpecs = []fnSpec{
	tableDelSpec("DeleteIPv4", "deleteIPv4", "*aftpb.Afts_Ipv4EntryKey", "IPv4EntryC", "retrieveIPv4", "doDeleteIPv4", "*aft.Afts_Ipv4Entry", "4", true, nil),
	tableDelSpec("DeleteIPv6", "deleteIPv6", "*aftpb.Afts_Ipv6EntryKey", "IPv6EntryC", "retrieveIPv6", "doDeleteIPv6", "*aft.Afts_Ipv6Entry", "6", true, nil),
	tableDelSpec("DeleteMPLS", "deleteMPLS", "*aftpb.Afts_LabelEntryKey", "LabelEntryC", "retrieveMPLS", "doDeleteMPLS", "*aft.Afts_LabelEntry", "1", true,
		map[string]string{"e.GetLabel().(*aftpb.Afts_LabelEntryKey_LabelUint64)": "§isUint"}),
	tableDelSpec("DeleteNextHopGroup", "deleteNextHopGroup", "*aftpb.Afts_NextHopGroupKey", "NHGEntryC", "retrieveNHG", "doDeleteNHG", "*aft.Afts_NextHopGroup", "2", false, nil),
	tableDelSpec("DeleteNextHop", "deleteNextHop", "*aftpb.Afts_NextHopKey", "NHEntryC", "retrieveNH", "doDeleteNH", "*aft.Afts_NextHop", "3", false, nil),
}

func locklessSpec(goName, lean, table, keyName, keyType string, keyKind kind, kindNo string) fnSpec {
	return fnSpec{
		file: "rib/rib.go", goName: goName, recvType: "*RIBHolder", callAs: "niR." + goName + "§", leanName: lean,
		params: []param{{goName: keyName, goType: keyType, lean: "key", kd: keyKind}},
		goRets: "error", rets: []string{"err"},
		oracleParams: []param{
			{goName: "§hook", lean: "hook", kd: kPtr("Unit")},
			{goName: "§name", lean: "name", kd: kStr},
			{goName: "§now", lean: "now", kd: kInt},
		},
		oracles: map[string]oracle{
			"r.postChangeHook": {results: []string{}, effect: "postHookTbl", args: []int{0, 2, 3}},
			"r.decNHRefCount":  {results: []string{}, effect: "decNHRef", args: []int{-1, 0}},
			"unixTS":           {results: []string{"§now"}},
		},
		subst:     map[string]string{"r.postChangeHook": "§hook", "r.name": "§name", "r": "§name"},
		state:     []stateField{{goExpr: "r.r.Afts." + table, lean: "tbl", kd: kind{k: "map", s: "TblEntry", t: []kind{keyKind}}}},
		effects:   true,
		deleteEff: "tableDel:" + kindNo,
		extConsts: map[string]string{"constants.Delete": "2"},
	}
}

var ribLocklessSpecs = []fnSpec{
	locklessSpec("locklessDeleteIPv4", "locklessDeleteIPv4", "Ipv4Entry", "prefix", "string", kStr, "4"),
	locklessSpec("locklessDeleteIPv6", "locklessDeleteIPv6", "Ipv6Entry", "prefix", "string", kStr, "6"),
	locklessSpec("locklessDeleteMPLS", "locklessDeleteMPLS", "LabelEntry", "label", "aft.Afts_LabelEntry_Label_Union", kNat, "1"),
	locklessSpec("locklessDeleteNHG", "locklessDeleteNHG", "NextHopGroup", "id", "uint64", kNat, "2"),
	locklessSpec("locklessDeleteNH", "locklessDeleteNH", "NextHop", "index", "uint64", kNat, "3"),
}

var ribTableSpecs = []fnSpec{
	tableAddSpec("AddIPv4", "addIPv4", "*aftpb.Afts_Ipv4EntryKey", "IPv4EntryC", "ipv4Exists", "retrieveIPv4", "doAddIPv4", "*aft.Afts_Ipv4Entry", "4"),
	tableAddSpec("AddIPv6", "addIPv6", "*aftpb.Afts_Ipv6EntryKey", "IPv6EntryC", "ipv6Exists", "retrieveIPv6", "doAddIPv6", "*aft.Afts_Ipv6Entry", "6"),
	tableAddSpec("AddMPLS", "addMPLS", "*aftpb.Afts_LabelEntryKey", "LabelEntryC", "mplsExists", "retrieveMPLS", "doAddMPLS", "*aft.Afts_LabelEntry", "1"),
	tableAddSpec("AddNextHopGroup", "addNextHopGroup", "*aftpb.Afts_NextHopGroupKey", "NHGEntryC", "nhgExists", "retrieveNHG", "doAddNHG", "*aft.Afts_NextHopGroup", "2"),
	tableAddSpec("AddNextHop", "addNextHop", "*aftpb.Afts_NextHopKey", "NHEntryC", "nhExists", "retrieveNH", "doAddNH", "*aft.Afts_NextHop", "3"),
}

var ribSmallSpecs = []fnSpec{
	{
		file: "rib/rib.go", goName: "AddEntry", recvType: "*RIB", callAs: "r.AddEntry§", leanName: "ribAddEntry",
		holdLocks: []string{"r.txMu"},
		params: []param{
			{goName: "ni", goType: "string", lean: "ni", kd: kStr},
			{goName: "op", goType: "*spb.AFTOperation", lean: "op", kd: kPtr("AFTOperationC")},
		},
		goRets: "[]*OpResult, []*OpResult, error", rets: []string{"list:RibOpResult", "list:RibOpResult", "err"},
		oracleParams: []param{
			{goName: "§oksOut", lean: "oksOut", kd: kind{k: "list", s: "RibOpResult", elemNN: true}},
			{goName: "§failsOut", lean: "failsOut", kd: kind{k: "list", s: "RibOpResult", elemNN: true}},
			{goName: "§intErr", lean: "intErr", kd: kind{k: "status"}},
		},
		oracles: map[string]oracle{
			// addEntryInternal(ni, op, &oks, &fails, checked): appends to the two slices; recorded with
			// the values they had at the call (both empty) and the set of handled operations
			"r.addEntryInternal": {results: []string{"§intErr"}, effect: "addEntryInternal", args: []int{0, 1}, outArgs: map[int]string{2: "§oksOut", 3: "§failsOut"}},
		},
		effects: true,
		typeMap: map[string]string{"OpResult": "RibOpResult"},
	},
	{
		file: "rib/rib.go", goName: "checkCandidate", callAs: "checkCandidate§", leanName: "checkCandidate",
		params: []param{{goName: "caft", goType: "*aft.Afts", lean: "caft", kd: kPtr("CandAfts"), nonnil: true}},
		goRets: "error", rets: []string{"err"},
	},
}

var chkSpecs = []fnSpec{
	{
		file: "chk/chk.go", goName: "GetResponseHasEntries", callAs: "GetResponseHasEntries§", leanName: "getResponseHasEntries", tbFatal: true,
		params: []param{
			{goName: "t", goType: "testing.TB", lean: "t", kd: kStr, skip: true},
			{goName: "getres", goType: "*spb.GetResponse", lean: "getres", kd: kPtr("GetResponseG")},
			// each want is represented by what its EntryProto() returns (nil = it fails)
			{goName: "wants", goType: "...fluent.GRIBIEntry", lean: "wants", kd: kind{k: "list", s: "GAFTEntry", optElems: true}},
		},
		goRets: "", rets: []string{"bool"},
		oracleParams: []param{{goName: "§protoErr", lean: "protoErr", kd: kind{k: "statusval"}}},
		oracles:      map[string]oracle{"*.EntryProto": {results: []string{"@self", "§protoErr"}, errOf: true}},
		typeMap:      map[string]string{"spb.AFTEntry": "GAFTEntry"},
		assertFields: map[string]string{"GetLabel().(*aftpb.Afts_LabelEntryKey_LabelUint64)": "LabelIsUint64"},
	},
	{
		file: "chk/chk.go", goName: "HasResult", callAs: "HasResult§", leanName: "hasResult", tbFatal: true,
		params: []param{
			{goName: "t", goType: "testing.TB", lean: "t", kd: kStr, skip: true},
			{goName: "res", goType: "[]*client.OpResult", lean: "res", kd: kind{k: "list", s: "COpResult", optElems: true}},
			{goName: "want", goType: "*client.OpResult", lean: "want", kd: kPtr("COpResult"), nonnil: true},
			{goName: "opt", goType: "...resultOpt", lean: "opt", kd: kStr, skip: true},
		},
		goRets: "", rets: []string{"bool"},
		oracleParams: []param{
			{goName: "§ignoreOpID", lean: "ignoreOpID", kd: kBool},
			{goName: "§includeServerError", lean: "includeServerError", kd: kBool},
			// cmp.Equal(r, want, IgnoreFields(OpResult{}, fields...), protocmp.Transform())
			{goName: "§cmpEqual", lean: "cmpEqual", kd: kind{k: "fun", t: []kind{kBool, kPtr("COpResult"), kPtr("COpResult"), kind{k: "list", s: "String"}}}},
		},
		oracles: map[string]oracle{
			"hasIgnoreOperationID":  {results: []string{"§ignoreOpID"}},
			"hasIncludeServerError": {results: []string{"§includeServerError"}},
			// the option list is represented by the list of ignored field names it was built from
			"cmpopts.IgnoreFields": {results: []string{"$1"}},
			"protocmp.Transform":   {results: []string{}},
			"cmp.Equal":            {results: []string{"§cmpEqual@0,1,2"}},
		},
		typeMap: map[string]string{"client.OpResult": "COpResult"},
	},
	{
		file: "chk/chk.go", goName: "HasResultsCache", callAs: "HasResultsCache", leanName: "hasResultsCache", tbFatal: true, joins: true,
		params: []param{
			{goName: "t", goType: "testing.TB", lean: "t", kd: kStr, skip: true},
			{goName: "res", goType: "[]*client.OpResult", lean: "res", kd: kind{k: "list", s: "COpResult", elemNN: true}},
			{goName: "wants", goType: "[]*client.OpResult", lean: "wants", kd: kind{k: "list", s: "COpResult", elemNN: true}},
			{goName: "opt", goType: "...resultOpt", lean: "opt", kd: kStr, skip: true},
		},
		goRets: "", rets: []string{"bool"},
		oracleParams: []param{
			{goName: "§ignoreOpID", lean: "ignoreOpID", kd: kBool},
			// HasResult(t, res, want, opt...) as a test: true = it returns normally
			{goName: "§hasResult", lean: "hasResult", kd: kind{k: "fun", t: []kind{kBool, kind{k: "list", s: "COpResult", optElems: true}, kPtr("COpResult")}}},
		},
		oracles: map[string]oracle{
			"hasIgnoreOperationID": {results: []string{"§ignoreOpID"}},
			"HasResult":            {results: []string{"§hasResult@1,2"}, fatalIfFalse: true},
		},
		typeMap: map[string]string{"client.OpResult": "COpResult"},
	},
}


// ---- the reconciler (rib/reconciler/reconcile.go)

var reconSpecs = []fnSpec{
	{
		file: "rib/reconciler/reconcile.go", goName: "diff", callAs: "diff§", leanName: "reconDiff", joins: true, valueLoops: true, heartbeats: 2000000,
		params: []param{
			{goName: "src", goType: "*rib.RIB", lean: "src", kd: kPtr("Unit")},
			{goName: "dst", goType: "*rib.RIB", lean: "dst", kd: kPtr("Unit")},
			{goName: "explicitReplace", goType: "map[spb.AFTType]bool", lean: "explicitReplace", kd: kind{k: "set"}},
			{goName: "id", goType: "*atomic.Uint64", lean: "idP", kd: kStr, skip: true},
		},
		goRets: "*ReconcileOps, error", rets: []string{"ptr:Unit", "err"},
		oracleParams: []param{
			{goName: "§srcC", lean: "srcC", kd: kind{k: "map", s: "ReconNI"}},
			{goName: "§srcErr", lean: "srcErr", kd: kind{k: "status"}},
			{goName: "§dstC", lean: "dstC", kd: kind{k: "map", s: "ReconNI"}},
			{goName: "§dstErr", lean: "dstErr", kd: kind{k: "status"}},
			{goName: "§opsTok", lean: "opsTok", kd: kPtr("Unit"), nonnil: true},
			{goName: "§deepEq", lean: "deepEq", kd: kind{k: "fun", t: []kind{kBool, kPtr("ReconEntS"), kPtr("ReconEntS")}}},
			{goName: "§mk4", lean: "mk4", kd: kind{k: "fun", t: []kind{kPtr("ReconOp"), kEnum, kStr, kNat, kPtr("ReconEntS")}}},
			{goName: "§mk6", lean: "mk6", kd: kind{k: "fun", t: []kind{kPtr("ReconOp"), kEnum, kStr, kNat, kPtr("ReconEntS")}}},
			{goName: "§mkM", lean: "mkM", kd: kind{k: "fun", t: []kind{kPtr("ReconOp"), kEnum, kStr, kNat, kPtr("ReconEntS")}}},
			{goName: "§mkG", lean: "mkG", kd: kind{k: "fun", t: []kind{kPtr("ReconOp"), kEnum, kStr, kNat, kPtr("ReconEntS")}}},
			{goName: "§mkN", lean: "mkN", kd: kind{k: "fun", t: []kind{kPtr("ReconOp"), kEnum, kStr, kNat, kPtr("ReconEntS")}}},
			{goName: "§mkErr", lean: "mkErr", kd: kind{k: "statusval"}},
		},
		oracles: map[string]oracle{
			"src.RIBContents":    {results: []string{"§srcC", "§srcErr"}},
			"dst.RIBContents":    {results: []string{"§dstC", "§dstErr"}},
			"NewReconcileOps":    {results: []string{"§opsTok"}},
			"reflect.DeepEqual":  {results: []string{"§deepEq@0,1"}},
			"v4Operation":        {results: []string{"§mk4@0,1,2,3", "§mkErr"}, errOf: true},
			"v6Operation":        {results: []string{"§mk6@0,1,2,3", "§mkErr"}, errOf: true},
			"mplsOperation":      {results: []string{"§mkM@0,1,2,3", "§mkErr"}, errOf: true},
			"nhgOperation":       {results: []string{"§mkG@0,1,2,3", "§mkErr"}, errOf: true},
			"nhOperation":        {results: []string{"§mkN@0,1,2,3", "§mkErr"}, errOf: true},
			"*.GetOrCreateAfts":  {results: []string{}},
		},
		state: []stateField{
			{goExpr: "id", lean: "id", kd: kNat},
			{goExpr: "ops.Add.NH", lean: "addNH", kd: kind{k: "list", s: "ReconOp", elemNN: true}},
		{goExpr: "ops.Add.NHG", lean: "addNHG", kd: kind{k: "list", s: "ReconOp", elemNN: true}},
		{goExpr: "ops.Add.TopLevel", lean: "addTop", kd: kind{k: "list", s: "ReconOp", elemNN: true}},
		{goExpr: "ops.Replace.NH", lean: "repNH", kd: kind{k: "list", s: "ReconOp", elemNN: true}},
		{goExpr: "ops.Replace.NHG", lean: "repNHG", kd: kind{k: "list", s: "ReconOp", elemNN: true}},
		{goExpr: "ops.Replace.TopLevel", lean: "repTop", kd: kind{k: "list", s: "ReconOp", elemNN: true}},
		{goExpr: "ops.Delete.NH", lean: "delNH", kd: kind{k: "list", s: "ReconOp", elemNN: true}},
		{goExpr: "ops.Delete.NHG", lean: "delNHG", kd: kind{k: "list", s: "ReconOp", elemNN: true}},
		{goExpr: "ops.Delete.TopLevel", lean: "delTop", kd: kind{k: "list", s: "ReconOp", elemNN: true}},
		},
		typeMap: map[string]string{"aft.RIB": "ReconNI"},
	},
}

func init() {
	specs = append(specs, reconSpecs...)
	specs = append(specs, chkSpecs...)
	specs = append(specs, ribSmallSpecs...)
	specs = append(specs, ribTableSpecs...)
	specs = append(specs, ribTableDelSpecs...)
	specs = append(specs, ribLocklessSpecs...)
	specs = append(specs, ribRefSpecs...)
	specs = append(specs, ribDelSpec)
	specs = append(specs, clientSpecs...)
	specs = append(specs, clientSpecs2...)
	specs = append(specs, ribSpecs...)
	specs = append(specs, ribFlushSpec)
	specs = append(specs, ribGetRIBSpec)
	specs = append(specs, ribRefCountSpecs...)
	specs = append(specs, chkErrSpecs...)
	specs = append(specs, ribRegistrySpecs...)
	specs = append(specs, fluentBuilderSpecs...)
	specs = append(specs, fluentModifySpecs...)
	specs = append(specs, reconOpSpecs...)
	specs = append(specs, fluentResultSpecs...)
	specs = append(specs, fluentHeaderSpecs...)
	specs = append(specs, fluentConnSpecs...)
}

// ---- the fluent builders (fluent/fluent.go)
//
// A builder is a Go struct holding a protobuf under construction (`pb`, allocated with its
// payload by the constructor and never replaced), the network instance and an optional explicit
// election id. Each `With…`/`Add…` method is translated as a function on that state; `OpProto`
// and `EntryProto` as functions of it. The methods return their receiver: the next call of the
// chain works on the state this one leaves.

var builderTypeMap = map[string]string{
	"wpb.UintValue": "UintValue", "wpb.StringValue": "StringValue", "wpb.BytesValue": "BytesValue",
	"AFTOperation": "AFTOperationB", "AFTEntry": "AFTEntryB",
	"aftpb.Afts_LabelEntry_PoppedMplsLabelStackUnion": "PoppedU",
	"aftpb.Afts_NextHopGroup_NextHopKey": "NhgNhKeyB", "aftpb.Afts_NextHopGroup_NextHop": "NhgNhB",
	"wpb.BoolValue": "BoolValue", "aftpb.Afts_NextHopKey": "NhKeyB", "aftpb.Afts_NextHop": "NhPayloadB", "aftpb.Afts_NextHop_InterfaceRef": "IfRefB",
	"aftpb.Afts_NextHop_IpInIp": "IpInIpB", "aftpb.Afts_NextHop_PushedMplsLabelStackUnion": "PushedU",
	"aftpb.Afts_Ipv4EntryKey": "Ipv4KeyB", "aftpb.Afts_Ipv4Entry": "TopEntryB", "aftpb.Afts_Ipv6EntryKey": "Ipv6KeyB", "aftpb.Afts_Ipv6Entry": "TopEntryB",
	"aftpb.Afts_LabelEntryKey": "LabelKeyB", "aftpb.Afts_LabelEntry": "LabelEntryB", "aftpb.Afts_NextHopGroupKey": "NhgKeyB", "aftpb.Afts_NextHopGroup": "NhgPayloadB",
}

func entryBuilderState(recv, schema string) []stateField {
	return []stateField{
		{goExpr: recv + ".pb", lean: "pb", kd: kPtrNN(schema)},
		{goExpr: recv + ".ni", lean: "curNI", kd: kStr},
		{goExpr: recv + ".electionID", lean: "curElec", kd: kPtr("Uint128")},
	}
}

func builderMethod(recvType, recv, schema, goName, lean string, params []param) fnSpec {
	return fnSpec{
		file: "fluent/fluent.go", goName: goName, recvType: "*" + recvType, callAs: "-", leanName: lean,
		params: params, goRets: "*" + recvType, rets: []string{},
		state:   entryBuilderState(recv, schema),
		typeMap: builderTypeMap, builder: true, oneofView: "EntryB",
	}
}

func builderProto(recvType, recv, schema, goName, lean string) fnSpec {
	sp := builderMethod(recvType, recv, schema, goName, lean, nil)
	if goName == "OpProto" {
		sp.goRets, sp.rets = "*spb.AFTOperation, error", []string{"ptr:AFTOperationB", "err"}
	} else {
		sp.goRets, sp.rets = "*spb.AFTEntry, error", []string{"ptr:AFTEntryB", "err"}
	}
	return sp
}

func w64(n string) param { return param{goName: n, goType: "uint64", lean: n, kd: kU64} }

func topBuilderSpecs(recvType, schema, pfx string) []fnSpec {
	u64 := func(n string) param { return param{goName: n, goType: "uint64", lean: n, kd: kNat} }
	str := func(n string) param { return param{goName: n, goType: "string", lean: n, kd: kStr} }
	return []fnSpec{
		builderMethod(recvType, "i", schema, "WithPrefix", pfx+"WithPrefix", []param{str("p")}),
		builderMethod(recvType, "i", schema, "WithNetworkInstance", pfx+"WithNetworkInstance", []param{str("n")}),
		builderMethod(recvType, "i", schema, "WithNextHopGroup", pfx+"WithNextHopGroup", []param{u64("u")}),
		builderMethod(recvType, "i", schema, "WithNextHopGroupNetworkInstance", pfx+"WithNextHopGroupNetworkInstance", []param{str("n")}),
		// the bytes are carried as they are (an opaque value)
		builderMethod(recvType, "i", schema, "WithMetadata", pfx+"WithMetadata", []param{{goName: "b", goType: "[]byte", lean: "b", kd: kStr}}),
		builderMethod(recvType, "i", schema, "WithElectionID", pfx+"WithElectionID", []param{w64("low"), w64("high")}),
		builderProto(recvType, "i", schema, "OpProto", pfx+"OpProto"),
		builderProto(recvType, "i", schema, "EntryProto", pfx+"EntryProto"),
	}
}

var fluentBuilderSpecs = func() []fnSpec {
	u64 := func(n string) param { return param{goName: n, goType: "uint64", lean: n, kd: kNat} }
	str := func(n string) param { return param{goName: n, goType: "string", lean: n, kd: kStr} }
	var out []fnSpec
	out = append(out, topBuilderSpecs("ipv4Entry", "Ipv4KeyB", "fl4")...)
	out = append(out, topBuilderSpecs("ipv6Entry", "Ipv6KeyB", "fl6")...)
	out = append(out,
		builderMethod("labelEntry", "l", "LabelKeyB", "WithLabel", "flLWithLabel", []param{{goName: "v", goType: "uint32", lean: "v", kd: kNat}}),
		builderMethod("labelEntry", "l", "LabelKeyB", "WithNetworkInstance", "flLWithNetworkInstance", []param{str("ni")}),
		builderMethod("labelEntry", "l", "LabelKeyB", "WithNextHopGroup", "flLWithNextHopGroup", []param{u64("id")}),
		builderMethod("labelEntry", "l", "LabelKeyB", "WithNextHopGroupNetworkInstance", "flLWithNextHopGroupNetworkInstance", []param{str("ni")}),
		builderMethod("labelEntry", "l", "LabelKeyB", "WithPoppedLabelStack", "flLWithPoppedLabelStack", []param{{goName: "labels", goType: "...uint32", lean: "labels", kd: kind{k: "list", s: "Nat", elemNN: true}}}),
		builderProto("labelEntry", "l", "LabelKeyB", "OpProto", "flLOpProto"),
		builderProto("labelEntry", "l", "LabelKeyB", "EntryProto", "flLEntryProto"),
		builderMethod("nextHopGroupEntry", "n", "NhgKeyB", "WithID", "flGWithID", []param{u64("i")}),
		builderMethod("nextHopGroupEntry", "n", "NhgKeyB", "WithNetworkInstance", "flGWithNetworkInstance", []param{str("ni")}),
		builderMethod("nextHopGroupEntry", "n", "NhgKeyB", "WithBackupNHG", "flGWithBackupNHG", []param{u64("id")}),
		builderMethod("nextHopGroupEntry", "n", "NhgKeyB", "AddNextHop", "flGAddNextHop", []param{u64("index"), u64("weight")}),
		builderMethod("nextHopGroupEntry", "n", "NhgKeyB", "WithElectionID", "flGWithElectionID", []param{w64("low"), w64("high")}),
		builderProto("nextHopGroupEntry", "n", "NhgKeyB", "OpProto", "flGOpProto"),
		builderProto("nextHopGroupEntry", "n", "NhgKeyB", "EntryProto", "flGEntryProto"),
	)
	hdr := func(goName, lean string) fnSpec {
		sp := builderMethod("nextHopEntry", "n", "NhKeyB", goName, lean, []param{{goName: "h", goType: "Header", lean: "h", kd: kInt}})
		// (one generated copy of the table per function that reads it: each module stands alone)
		sp.constMaps = map[string]string{"encapMap": lean + "_encapMap"}
		return sp
	}
	out = append(out,
		builderMethod("nextHopEntry", "n", "NhKeyB", "WithIndex", "flNWithIndex", []param{u64("i")}),
		builderMethod("nextHopEntry", "n", "NhKeyB", "WithNetworkInstance", "flNWithNetworkInstance", []param{str("ni")}),
		builderMethod("nextHopEntry", "n", "NhKeyB", "WithIPAddress", "flNWithIPAddress", []param{str("addr")}),
		builderMethod("nextHopEntry", "n", "NhKeyB", "WithInterfaceRef", "flNWithInterfaceRef", []param{str("name")}),
		builderMethod("nextHopEntry", "n", "NhKeyB", "WithSubinterfaceRef", "flNWithSubinterfaceRef", []param{str("name"), u64("subinterface")}),
		builderMethod("nextHopEntry", "n", "NhKeyB", "WithMacAddress", "flNWithMacAddress", []param{str("mac")}),
		builderMethod("nextHopEntry", "n", "NhKeyB", "WithIPinIP", "flNWithIPinIP", []param{str("srcIP"), str("dstIP")}),
		builderMethod("nextHopEntry", "n", "NhKeyB", "WithNextHopNetworkInstance", "flNWithNextHopNetworkInstance", []param{str("ni")}),
		builderMethod("nextHopEntry", "n", "NhKeyB", "WithPopTopLabel", "flNWithPopTopLabel", nil),
		// WithPushedLabelStack assigns through n.pb.NextHop inside its loop, where nothing in the
		// loop's own text says the pointer is non-nil: outside the subset (tied by the differential runs)
		hdr("WithDecapsulateHeader", "flNWithDecapsulateHeader"),
		hdr("WithEncapsulateHeader", "flNWithEncapsulateHeader"),
		builderMethod("nextHopEntry", "n", "NhKeyB", "WithElectionID", "flNWithElectionID", []param{w64("low"), w64("high")}),
		builderProto("nextHopEntry", "n", "NhKeyB", "OpProto", "flNOpProto"),
		builderProto("nextHopEntry", "n", "NhKeyB", "EntryProto", "flNEntryProto"),
	)
	// the Get and Flush request builders: the request is the whole state
	req := func(recvType, schema, goName, lean string, params []param) fnSpec {
		return fnSpec{
			file: "fluent/fluent.go", goName: goName, recvType: "*" + recvType, callAs: "-", leanName: lean,
			params: params, goRets: "*" + recvType, rets: []string{},
			state:   []stateField{{goExpr: "g.pb", lean: "pb", kd: kPtrNN(schema)}},
			typeMap: map[string]string{"GetRequest": "GetRequestG", "FlushRequest": "FlushRequestB"}, builder: true,
		}
	}
	out = append(out,
		req("gRIBIGet", "GetRequestG", "AllNetworkInstances", "flGetAllNetworkInstances", nil),
		req("gRIBIGet", "GetRequestG", "WithNetworkInstance", "flGetWithNetworkInstance", []param{str("ni")}),
		req("gRIBIFlush", "FlushRequestB", "WithElectionID", "flFlushWithElectionID", []param{w64("low"), w64("high")}),
		req("gRIBIFlush", "FlushRequestB", "WithElectionOverride", "flFlushWithElectionOverride", nil),
		req("gRIBIFlush", "FlushRequestB", "WithNetworkInstance", "flFlushWithNetworkInstance", []param{str("n")}),
		req("gRIBIFlush", "FlushRequestB", "WithAllNetworkInstances", "flFlushWithAllNetworkInstances", nil),
	)
	for _, c := range [][3]string{{"IPv4Entry", "ipv4Entry", "flNewIPv4Entry"}, {"IPv6Entry", "ipv6Entry", "flNewIPv6Entry"}, {"LabelEntry", "labelEntry", "flNewLabelEntry"}, {"NextHopGroupEntry", "nextHopGroupEntry", "flNewNextHopGroupEntry"}, {"NextHopEntry", "nextHopEntry", "flNewNextHopEntry"}} {
		out = append(out, fnSpec{file: "fluent/fluent.go", goName: c[0], callAs: "-", leanName: c[2], goRets: "*" + c[1], rets: []string{"ptr:" + c[1]}, typeMap: builderTypeMap})
	}
	out = append(out,
		fnSpec{file: "fluent/fluent.go", goName: "Get", recvType: "*GRIBIClient", callAs: "-", leanName: "flNewGet", goRets: "*gRIBIGet", rets: []string{"ptr:gRIBIGet"}, typeMap: map[string]string{"GetRequest": "GetRequestG"}},
		fnSpec{file: "fluent/fluent.go", goName: "Flush", recvType: "*GRIBIClient", callAs: "-", leanName: "flNewFlush", goRets: "*gRIBIFlush", rets: []string{"ptr:gRIBIFlush"}, typeMap: map[string]string{"FlushRequest": "FlushRequestB"}},
	)
	aft := req("gRIBIGet", "GetRequestG", "WithAFT", "flGetWithAFT", []param{{goName: "a", goType: "AFT", lean: "a", kd: kInt}})
	aft.constMaps = map[string]string{"aftMap": "aftMap"}
	out = append(out, aft)
	return out
}()

// ---- the fluent client's Modify wrapper (fluent/fluent.go): AddEntry / DeleteEntry / ReplaceEntry
// (each builds one request with entriesToModifyRequest and queues it), UpdateElectionID, Enqueue,
// InjectRequest. `g.parent.c.Q(m)` is recorded as an effect.

var fluentModifySpecs = func() []fnSpec {
	entries := param{goName: "entries", goType: "...GRIBIEntry", lean: "entries", kd: kind{k: "list", s: "AFTOperation", optElems: true}}
	tb := param{goName: "t", goType: "testing.TB", lean: "t", kd: kPtr("Unit"), skip: true}
	wrap := func(goName, lean string) fnSpec {
		return fnSpec{
			file: "fluent/fluent.go", goName: goName, recvType: "*gRIBIModify", callAs: "-", leanName: lean,
			params: []param{tb, entries}, goRets: "*gRIBIModify", rets: []string{"bool"},
			oracleParams: []param{
				{goName: "§parent", lean: "parent", kd: kPtr("Unit")},
				{goName: "§conn", lean: "conn", kd: kPtr("gRIBIConnection")},
				{goName: "§curElec", lean: "curElec", kd: kPtr("Uint128")},
				{goName: "§opErr", lean: "opErr", kd: kind{k: "statusval"}},
			},
			oracles: map[string]oracle{"g.parent.c.Q": {results: []string{}, effect: "flQ"}},
			subst:   map[string]string{"g.parent": "§parent", "g.parent.connection": "§conn", "g.parent.currentElectionID": "§curElec"},
			state:   []stateField{{goExpr: "g.parent.opCount", lean: "opCount", kd: kNat}},
			typeMap: map[string]string{"ModifyRequest": "ModifyRequestF"},
			effects: true, tbFatal: true, builder: true,
		}
	}
	toks := param{goName: "entries", goType: "...*spb.ModifyRequest", lean: "entries", kd: kind{k: "list", s: "ReqTok", optElems: true}}
	return []fnSpec{
		wrap("AddEntry", "flAddEntry"), wrap("DeleteEntry", "flDeleteEntry"), wrap("ReplaceEntry", "flReplaceEntry"),
		{
			file: "fluent/fluent.go", goName: "UpdateElectionID", recvType: "*gRIBIModify", callAs: "-", leanName: "flUpdateElectionID",
			params: []param{tb, w64("low"), w64("high")}, goRets: "*gRIBIModify", rets: []string{},
			oracles: map[string]oracle{"g.parent.c.Q": {results: []string{}, effect: "flQElec"}},
			state:   []stateField{{goExpr: "g.parent.currentElectionID", lean: "curElec", kd: kPtr("Uint128")}},
			typeMap: map[string]string{"ModifyRequest": "ModifyRequestE"},
			effects: true, builder: true,
		},
		{
			file: "fluent/fluent.go", goName: "Enqueue", recvType: "*gRIBIModify", callAs: "-", leanName: "flEnqueue",
			params: []param{tb, toks}, goRets: "*gRIBIModify", rets: []string{},
			oracles: map[string]oracle{"g.parent.c.Q": {results: []string{}, effect: "flQTok"}},
			effects: true, builder: true,
		},
		{
			file: "fluent/fluent.go", goName: "InjectRequest", recvType: "*gRIBIModify", callAs: "-", leanName: "flInjectRequest",
			params: []param{tb, {goName: "m", goType: "*spb.ModifyRequest", lean: "m", kd: kPtr("ReqTok")}}, goRets: "*gRIBIModify", rets: []string{},
			oracles: map[string]oracle{"g.parent.c.Q": {results: []string{}, effect: "flQTok"}},
			effects: true, builder: true,
		},
	}
}()

// ---- the reconciler's operation builders (rib/reconciler/reconcile.go): the five functions that
// wrap a converted entry into an AFTOperation (oracles `mk4` … of `diff`'s translation)

var reconOpSpecs = func() []fnSpec {
	mk := func(goName, lean, eType, conv string) fnSpec {
		return fnSpec{
			file: "rib/reconciler/reconcile.go", goName: goName, callAs: "-", leanName: lean,
			params: []param{
				{goName: "method", goType: "spb.AFTOperation_Operation", lean: "method", kd: kEnum},
				{goName: "ni", goType: "string", lean: "ni", kd: kStr},
				{goName: "id", goType: "*atomic.Uint64", lean: "id", kd: kPtr("Unit"), skip: true},
				{goName: "e", goType: eType, lean: "e", kd: kPtr("Unit"), skip: true},
			},
			goRets: "*spb.AFTOperation, error", rets: []string{"ptr:ReconOpX", "err"},
			oracleParams: []param{
				{goName: "§idNow", lean: "idNow", kd: kNat},
				{goName: "§conv", lean: "conv", kd: kPtr("ConvTok")},
				{goName: "§convErr", lean: "convErr", kd: kind{k: "statusval"}},
			},
			oracles: map[string]oracle{conv: {results: []string{"§conv", "§convErr"}, errOf: true}},
			subst:   map[string]string{"id.Load()": "§idNow"},
			typeMap: map[string]string{"AFTOperation": "ReconOpX"}, oneofView: "ReconEntryX",
		}
	}
	return []fnSpec{
		mk("v4Operation", "reconV4Operation", "*aft.Afts_Ipv4Entry", "rib.ConcreteIPv4Proto"),
		mk("v6Operation", "reconV6Operation", "*aft.Afts_Ipv6Entry", "rib.ConcreteIPv6Proto"),
		mk("nhgOperation", "reconNhgOperation", "*aft.Afts_NextHopGroup", "rib.ConcreteNextHopGroupProto"),
		mk("nhOperation", "reconNhOperation", "*aft.Afts_NextHop", "rib.ConcreteNextHopProto"),
		mk("mplsOperation", "reconMplsOperation", "*aft.Afts_LabelEntry", "rib.ConcreteMPLSProto"),
	}
}()

// ---- the fluent operation-result builder (fluent/fluent.go: OperationResult().With…().AsResult()),
// with which tests and the compliance suite write down the results they expect

var fluentResultSpecs = func() []fnSpec {
	u64 := func(n string) param { return param{goName: n, goType: "uint64", lean: n, kd: kNat} }
	str := func(n string) param { return param{goName: n, goType: "string", lean: n, kd: kStr} }
	tm := map[string]string{"client.OpResult": "COpResult", "client.OpDetailsResults": "OpDetailsResults"}
	m := func(goName, lean string, params []param) fnSpec {
		return fnSpec{
			file: "fluent/fluent.go", goName: goName, recvType: "*opResult", callAs: "-", leanName: lean,
			params: params, goRets: "*opResult", rets: []string{},
			state:   []stateField{{goExpr: "o.r", lean: "res", kd: kPtrNN("COpResult")}},
			typeMap: tm, builder: true,
		}
	}
	pr := m("WithProgrammingResult", "flRWithProgrammingResult", []param{{goName: "r", goType: "ProgrammingResult", lean: "r", kd: kInt}})
	pr.constMaps = map[string]string{"programmingResultMap": "programmingResultMap"}
	as := m("AsResult", "flRAsResult", nil)
	as.goRets, as.rets, as.mayHandOut = "*client.OpResult", []string{"ptr:COpResult"}, true
	return []fnSpec{
		{file: "fluent/fluent.go", goName: "OperationResult", callAs: "-", leanName: "flNewOperationResult", goRets: "*opResult", rets: []string{"ptr:opResult"}, typeMap: tm},
		m("WithCurrentServerElectionID", "flRWithCurrentServerElectionID", []param{w64("low"), w64("high")}),
		m("WithSuccessfulSessionParams", "flRWithSuccessfulSessionParams", nil),
		m("WithOperationID", "flRWithOperationID", []param{u64("i")}),
		m("WithIPv4Operation", "flRWithIPv4Operation", []param{str("p")}),
		m("WithIPv6Operation", "flRWithIPv6Operation", []param{str("p")}),
		m("WithNextHopGroupOperation", "flRWithNextHopGroupOperation", []param{u64("i")}),
		m("WithNextHopOperation", "flRWithNextHopOperation", []param{u64("i")}),
		m("WithMPLSOperation", "flRWithMPLSOperation", []param{u64("i")}),
		m("WithOperationType", "flRWithOperationType", []param{{goName: "c", goType: "constants.OpType", lean: "c", kd: kEnum}}),
		pr, as,
	}
}()

// ---- the encapsulation-header builders (fluent/fluent.go)

var fluentHeaderSpecs = func() []fnSpec {
	u64 := func(n string) param { return param{goName: n, goType: "uint64", lean: n, kd: kNat} }
	str := func(n string) param { return param{goName: n, goType: "string", lean: n, kd: kStr} }
	mtm := map[string]string{"aftpb.Afts_NextHop_EncapHeader": "EhMplsHdrB", "aftpb.Afts_NextHop_EncapHeader_Mpls": "EhMplsB",
		"aftpb.Afts_NextHop_EncapHeader_Mpls_MplsLabelStackUnion": "MplsLabelU"}
	utm := map[string]string{"aftpb.Afts_NextHop_EncapHeader": "EhUdpHdrB", "aftpb.Afts_NextHop_EncapHeader_UdpV6": "EhUdpB",
		"wpb.UintValue": "UintValue", "wpb.StringValue": "StringValue"}
	m := func(recvType, schema, goName, lean string, params []param, tm map[string]string) fnSpec {
		return fnSpec{
			file: "fluent/fluent.go", goName: goName, recvType: "*" + recvType, callAs: "-", leanName: lean,
			params: params, goRets: "*" + recvType, rets: []string{},
			state:   []stateField{{goExpr: "eh.pb", lean: "pb", kd: kPtrNN(schema)}},
			typeMap: tm, builder: true,
		}
	}
	ctor := func(goName, lean, ret string, tm map[string]string, k, v string) fnSpec {
		return fnSpec{file: "fluent/fluent.go", goName: goName, callAs: "-", leanName: lean, goRets: "*" + ret, rets: []string{"ptr:" + ret}, typeMap: tm,
			consts: map[string]string{k: v}, constMaps: map[string]string{"encapMap": lean + "_encapMap"}}
	}
	mp := m("mplsEncapHeader", "EhMplsHdrB", "EncapProto", "flHMplsEncapProto", nil, mtm)
	mp.goRets, mp.rets, mp.mayHandOut = "*aftpb.Afts_NextHop_EncapHeader", []string{"ptr:EhMplsHdrB"}, true
	up := m("udpv6EncapHeader", "EhUdpHdrB", "EncapProto", "flHUdpEncapProto", nil, utm)
	up.goRets, up.rets, up.mayHandOut = "*aftpb.Afts_NextHop_EncapHeader", []string{"ptr:EhUdpHdrB"}, true
	return []fnSpec{
		ctor("MPLSEncapHeader", "flNewMPLSEncapHeader", "mplsEncapHeader", mtm, "MPLS", "2"),
		m("mplsEncapHeader", "EhMplsHdrB", "WithLabels", "flHWithLabels", []param{{goName: "labels", goType: "...uint64", lean: "labels", kd: kind{k: "list", s: "Nat", elemNN: true}}}, mtm),
		mp,
		ctor("UDPV6EncapHeader", "flNewUDPV6EncapHeader", "udpv6EncapHeader", utm, "UDPV6", "3"),
		m("udpv6EncapHeader", "EhUdpHdrB", "WithDSCP", "flHWithDSCP", []param{u64("dscp")}, utm),
		m("udpv6EncapHeader", "EhUdpHdrB", "WithDstIP", "flHWithDstIP", []param{str("ip")}, utm),
		m("udpv6EncapHeader", "EhUdpHdrB", "WithDstUDPPort", "flHWithDstUDPPort", []param{u64("port")}, utm),
		m("udpv6EncapHeader", "EhUdpHdrB", "WithIPTTL", "flHWithIPTTL", []param{u64("ttl")}, utm),
		m("udpv6EncapHeader", "EhUdpHdrB", "WithSrcIP", "flHWithSrcIP", []param{str("ip")}, utm),
		m("udpv6EncapHeader", "EhUdpHdrB", "WithSrcUDPPort", "flHWithSrcUDPPort", []param{u64("port")}, utm),
		up,
	}
}()

// ---- the fluent connection builder (fluent/fluent.go): the four setters that decide what the
// client negotiates and which election id its first operations carry

var fluentConnSpecs = func() []fnSpec {
	st := []stateField{
		{goExpr: "g.persist", lean: "persist", kd: kBool},
		{goExpr: "g.fibACK", lean: "fibACK", kd: kBool},
		{goExpr: "g.redundMode", lean: "redundMode", kd: kInt},
		{goExpr: "g.electionID", lean: "electionID", kd: kPtr("Uint128")},
		{goExpr: "g.parent.currentElectionID", lean: "curElec", kd: kPtr("Uint128")},
	}
	m := func(goName, lean string, params []param) fnSpec {
		return fnSpec{
			file: "fluent/fluent.go", goName: goName, recvType: "*gRIBIConnection", callAs: "-", leanName: lean,
			params: params, goRets: "*gRIBIConnection", rets: []string{}, state: st, builder: true,
		}
	}
	return []fnSpec{
		m("WithPersistence", "flCWithPersistence", nil),
		m("WithFIBACK", "flCWithFIBACK", nil),
		m("WithRedundancyMode", "flCWithRedundancyMode", []param{{goName: "m", goType: "RedundancyMode", lean: "m", kd: kInt}}),
		m("WithInitialElectionID", "flCWithInitialElectionID", []param{w64("low"), w64("high")}),
	}
}()
