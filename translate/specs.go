package main

// The functions that are translated, with the Lean shape of their parameters.
//
// A parameter marked nonnil is a pointer the function dereferences without testing it: the
// caller guarantees it (a declared precondition; where the caller is itself translated the
// translator checks the guarantee at the call site).

type param struct {
	goName, goType string
	lean           string
	kd             kind
	nonnil         bool
	skip           bool // not used by the logic (ids used only in messages)
}

type stateField struct {
	goExpr, lean string
	kd           kind
}

type oracle struct {
	results []string // names of oracle parameters bound to the call's results
	effect  string   // constructor of Gen.Eff recorded when the call is made ("" = none)
	errOf   bool     // results are (pointer, error) and exactly one of them is nil
}

type fnSpec struct {
	file, goName string
	callAs       string // how other translated functions call it
	leanName     string
	params       []param
	goRets       string
	rets         []string // bool | err | mresp
	oracleParams []param
	oracles      map[string]oracle
	subst        map[string]string // rendered Go expression -> oracle parameter
	state        []stateField
	effects      bool
	uses         map[string]bool // translated functions this one calls (filled while translating)
}

func (f *fnSpec) isState(r string) bool {
	for _, s := range f.state {
		if s.goExpr == r {
			return true
		}
	}
	return false
}

var specs = []fnSpec{
	{
		file: "server/server.go", goName: "isNewMaster", callAs: "isNewMaster", leanName: "isNewMaster",
		params: []param{
			{goName: "cand", goType: "*spb.Uint128", lean: "cand", kd: kPtr("Uint128"), nonnil: true},
			{goName: "exist", goType: "*spb.Uint128", lean: "exist", kd: kPtr("Uint128")},
		},
		goRets: "bool, bool, error", rets: []string{"bool", "bool", "err"},
	},
	{
		file: "server/server.go", goName: "checkElectionForModify", callAs: "checkElectionForModify", leanName: "checkElectionForModify",
		params: []param{
			{goName: "opID", goType: "uint64", lean: "opID", kd: kNat},
			{goName: "opElecID", goType: "*spb.Uint128", lean: "opElecID", kd: kPtr("Uint128")},
			{goName: "election", goType: "*electionDetails", lean: "election", kd: kPtr("electionDetails")},
		},
		goRets: "*spb.ModifyResponse, bool, error", rets: []string{"mresp", "bool", "err"},
	},
	{
		file: "server/server.go", goName: "checkFlushRequest", callAs: "s.checkFlushRequest", leanName: "checkFlushRequest",
		params: []param{
			{goName: "req", goType: "*spb.FlushRequest", lean: "req", kd: kPtr("FlushRequest")},
		},
		goRets: "error", rets: []string{"err"},
		// s.getElection() builds a fresh, non-nil electionDetails from curMaster / curElecID
		oracleParams: []param{{goName: "§curElecID", lean: "curElecID", kd: kPtr("Uint128")}},
		subst:        map[string]string{"s.getElection().ID": "§curElecID"},
	},
	{
		file: "server/server.go", goName: "checkParams", callAs: "s.checkParams", leanName: "checkParams",
		params: []param{
			{goName: "id", goType: "string", lean: "id", kd: kStr},
			{goName: "p", goType: "*spb.SessionParameters", lean: "p", kd: kPtr("SessionParameters")},
			{goName: "gotMsg", goType: "bool", lean: "gotMsg", kd: kBool},
		},
		goRets: "*spb.ModifyResponse, error", rets: []string{"mresp", "err"},
		oracleParams: []param{
			{goName: "§consistent", lean: "consistent", kd: kBool},
			{goName: "§consErr", lean: "consErr", kd: kind{k: "status"}},
			{goName: "§setErr", lean: "setErr", kd: kind{k: "status"}},
		},
		oracles: map[string]oracle{
			"s.checkClientsConsistent": {results: []string{"§consistent", "§consErr"}, effect: "checkClientsConsistent"},
			"s.setClientParams":        {results: []string{"§setErr"}, effect: "setClientParams"},
		},
		effects: true,
	},
	{
		file: "server/server.go", goName: "runElection", callAs: "s.runElection", leanName: "runElection",
		params: []param{
			{goName: "id", goType: "string", lean: "id", kd: kStr},
			{goName: "elecID", goType: "*spb.Uint128", lean: "elecID", kd: kPtr("Uint128"), nonnil: true},
		},
		goRets: "*spb.ModifyResponse, error", rets: []string{"mresp", "err"},
		oracleParams: []param{
			{goName: "§cs", lean: "cs", kd: kPtr("clientState")},
			{goName: "§csErr", lean: "csErr", kd: kind{k: "statusval"}},
			{goName: "§stored", lean: "stored", kd: kBool},
		},
		oracles: map[string]oracle{
			"s.getClientStateCopy":    {results: []string{"§cs", "§csErr"}, errOf: true},
			"s.storeClientElectionID": {results: []string{"§stored"}, effect: "storeClientElectionID"},
		},
		state: []stateField{
			{goExpr: "s.curElecID", lean: "curElecID", kd: kPtr("Uint128")},
			{goExpr: "s.curMaster", lean: "curMaster", kd: kStr},
		},
		effects: true,
	},
}
