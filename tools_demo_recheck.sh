#!/bin/sh
# usage: tools_demo_recheck.sh <seed-id>...  — re-runs a filed seed's demonstration against /repo's HEAD:
# must pass on the clean tree and fail with the patch applied (used after a fix: commit moved HEAD)
export GOFLAGS=-mod=mod GOPROXY=off
for ID in "$@"; do
  WT=/tmp/recheck_$ID
  rm -rf $WT; git -C /repo worktree prune
  git -C /repo worktree add -q --detach $WT HEAD || exit 2
  ( cd $WT && mkdir zz_demo && cp /verif/seeded/$ID/demo_test.go zz_demo/ &&
    CLEAN=$(go test -count=1 -timeout 300s ./zz_demo/ 2>&1 | tail -1) &&
    git apply /verif/seeded/$ID/patch.diff && go build ./... &&
    MUT=$(go test -count=1 -timeout 300s ./zz_demo/ 2>&1 | tail -1)
    echo "$ID | clean: $CLEAN | with change: $MUT" )
  git -C /repo worktree remove --force $WT
done
