#!/bin/sh
# usage: tools_gen_matrix.sh <seed-id>...   (or no arguments: every seed)
# For each seeded change: apply it in a scratch worktree, regenerate the Lean definitions from that
# tree into a scratch copy of the Lean project, and list the equivalence modules that no longer build.
export GOFLAGS=-mod=mod GOPROXY=off
cd /verif/translate && go build -o /tmp/verifgen-gm . || exit 2
MODS=$(ls /verif/lean/Gribi/Props/GenEquiv/*.lean | sed 's#.*/##; s#\.lean##' | sed 's#^#Gribi.Props.GenEquiv.#')
[ $# -eq 0 ] && set -- $(ls /verif/seeded | grep -v MATRIX)
rm -rf /tmp/gm_lean; cp -r /verif/lean /tmp/gm_lean
for id in "$@"; do
  WT=/tmp/gm_wt
  git -C /repo worktree remove --force $WT 2>/dev/null; rm -rf $WT; git -C /repo worktree prune
  git -C /repo worktree add -q --detach $WT HEAD || exit 2
  if ! git -C $WT apply /verif/seeded/$id/patch.diff 2>/dev/null; then echo "$id: patch does not apply"; continue; fi
  /tmp/verifgen-gm -repo $WT -out /tmp/gm_lean/Gribi/Gen > /tmp/gm_gen.log 2>&1
  BAD=""
  for m in $MODS; do
    (cd /tmp/gm_lean && lake build $m > /tmp/gm_build.log 2>&1) || BAD="$BAD ${m##*.}"
  done
  echo "$id: $(head -1 /tmp/gm_gen.log | cut -c1-60) | broken:${BAD:- none}"
done
git -C /repo worktree remove --force /tmp/gm_wt 2>/dev/null; rm -rf /tmp/gm_lean
