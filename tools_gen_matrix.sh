#!/bin/sh
# usage: tools_gen_matrix.sh <seed-id>...   (or no arguments: every seed)
# For each seeded change: apply it in a scratch worktree, regenerate the Lean definitions from that
# tree into a scratch copy of the Lean project, and list the equivalence modules that no longer build.
export GOFLAGS=-mod=mod GOPROXY=off
# GM_DIR: where the changes live (default /verif/seeded); GM_TAG: suffix of the scratch paths, so
# that two runs do not share them
GM_DIR=${GM_DIR:-/verif/seeded}; GM_TAG=${GM_TAG:-a}
cd /verif/translate && go build -o /tmp/verifgen-gm$GM_TAG . || exit 2
MODS=${GM_MODS:-$(ls /verif/lean/Gribi/Props/GenEquiv/*.lean | sed 's#.*/##; s#\.lean##' | sed "s#^#Gribi.Props.GenEquiv.#")}
[ $# -eq 0 ] && set -- $(ls $GM_DIR | grep -v MATRIX)
rm -rf /tmp/gm${GM_TAG}_lean; cp -r /verif/lean /tmp/gm${GM_TAG}_lean
for id in "$@"; do
  WT=/tmp/gm${GM_TAG}_wt
  git -C /repo worktree remove --force $WT 2>/dev/null; rm -rf $WT; git -C /repo worktree prune
  git -C /repo worktree add -q --detach $WT HEAD || exit 2
  if ! git -C $WT apply $GM_DIR/$id/patch.diff 2>/dev/null; then echo "$id: patch does not apply"; continue; fi
  /tmp/verifgen-gm$GM_TAG -repo $WT -out /tmp/gm${GM_TAG}_lean/Gribi/Gen > /tmp/gm${GM_TAG}_gen.log 2>&1
  BAD=""
  for m in $MODS; do
    (cd /tmp/gm${GM_TAG}_lean && lake build $m > /tmp/gm${GM_TAG}_build.log 2>&1) || BAD="$BAD ${m##*.}"
  done
  echo "$id: $(head -1 /tmp/gm${GM_TAG}_gen.log | cut -c1-60) | broken:${BAD:- none}"
done
git -C /repo worktree remove --force /tmp/gm${GM_TAG}_wt 2>/dev/null; rm -rf /tmp/gm${GM_TAG}_lean
