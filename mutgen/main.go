// mutgen: first-order mutants of the Go functions that are translated to Lean, to measure what
// the equivalence theorems notice. For every function listed on stdin ("file func recvType") it
// enumerates small semantic mutations inside the function body (== <-> !=, && <-> ||, < <-> <=,
// > <-> >=, !x -> x, true <-> false, an if condition negated, a call statement deleted; arguments
// of log / fmt calls are left alone), applies each to a scratch copy of the repository, keeps those
// that still build, and writes them as <out>/<id>/patch.diff.
package main

import (
	"bufio"
	"flag"
	"fmt"
	"go/ast"
	"go/parser"
	"go/token"
	"os"
	"os/exec"
	"path/filepath"
	"strings"
)

type mut struct {
	off, end int
	repl     string
	what     string
	line     int
}

func main() {
	repo := flag.String("repo", "", "scratch worktree of the repository (is modified and restored)")
	out := flag.String("out", "", "output directory")
	every := flag.Int("every", 1, "keep every n-th candidate of a function")
	max := flag.Int("max", 6, "at most this many mutants per function")
	flag.Parse()
	sc := bufio.NewScanner(os.Stdin)
	n := 0
	for sc.Scan() {
		f := strings.Fields(sc.Text())
		if len(f) < 2 {
			continue
		}
		recv := ""
		if len(f) > 2 {
			recv = f[2]
		}
		n += mutate(*repo, *out, f[0], f[1], recv, *every, *max)
	}
	fmt.Printf("%d mutants written\n", n)
}

func render(e ast.Expr) string {
	switch v := e.(type) {
	case *ast.Ident:
		return v.Name
	case *ast.StarExpr:
		return "*" + render(v.X)
	case *ast.SelectorExpr:
		return render(v.X) + "." + v.Sel.Name
	}
	return "?"
}

func mutate(repo, out, file, fn, recv string, every, max int) int {
	path := filepath.Join(repo, file)
	src, err := os.ReadFile(path)
	if err != nil {
		return 0
	}
	fset := token.NewFileSet()
	af, err := parser.ParseFile(fset, file, src, 0)
	if err != nil {
		return 0
	}
	var fd *ast.FuncDecl
	for _, d := range af.Decls {
		x, ok := d.(*ast.FuncDecl)
		if !ok || x.Name.Name != fn || x.Body == nil {
			continue
		}
		r := ""
		if x.Recv != nil && len(x.Recv.List) > 0 {
			r = render(x.Recv.List[0].Type)
		}
		if recv != "" && r != recv {
			continue
		}
		if recv == "" && r != "" {
			continue
		}
		fd = x
	}
	if fd == nil {
		return 0
	}
	off := func(p token.Pos) int { return fset.Position(p).Offset }
	var ms []mut
	skip := map[ast.Node]bool{}
	ast.Inspect(fd.Body, func(nd ast.Node) bool {
		if nd == nil {
			return true
		}
		if c, ok := nd.(*ast.CallExpr); ok {
			name := render(c.Fun)
			if strings.HasPrefix(name, "log.") || strings.HasPrefix(name, "fmt.") || strings.HasPrefix(name, "errors.") || strings.HasPrefix(name, "status.") || strings.HasSuffix(name, ".Infof") || strings.HasSuffix(name, ".Errorf") || name == "t.Fatalf" || name == "t.Fatal" {
				return false // messages are not behaviour
			}
		}
		switch v := nd.(type) {
		case *ast.BinaryExpr:
			swap := map[token.Token]string{token.EQL: "!=", token.NEQ: "==", token.LAND: "||", token.LOR: "&&", token.LSS: "<=", token.LEQ: "<", token.GTR: ">=", token.GEQ: ">"}
			if r, ok := swap[v.Op]; ok {
				ms = append(ms, mut{off(v.OpPos), off(v.OpPos) + len(v.Op.String()), r, v.Op.String() + " -> " + r, fset.Position(v.OpPos).Line})
			}
		case *ast.UnaryExpr:
			if v.Op == token.NOT {
				ms = append(ms, mut{off(v.OpPos), off(v.OpPos) + 1, "", "! removed", fset.Position(v.OpPos).Line})
			}
		case *ast.Ident:
			if v.Name == "true" || v.Name == "false" {
				r := "true"
				if v.Name == "true" {
					r = "false"
				}
				ms = append(ms, mut{off(v.Pos()), off(v.End()), r, v.Name + " -> " + r, fset.Position(v.Pos()).Line})
			}
		case *ast.IfStmt:
			if !skip[v] {
				ms = append(ms, mut{off(v.Cond.Pos()), off(v.Cond.End()), "!(" + string(src[off(v.Cond.Pos()):off(v.Cond.End())]) + ")", "if condition negated", fset.Position(v.Cond.Pos()).Line})
			}
		case *ast.ExprStmt:
			if c, ok := v.X.(*ast.CallExpr); ok {
				name := render(c.Fun)
				if !strings.HasSuffix(name, "Lock") && !strings.HasSuffix(name, "Unlock") && name != "t.Helper" {
					ms = append(ms, mut{off(v.Pos()), off(v.End()), "/* call deleted */", "call of " + name + " deleted", fset.Position(v.Pos()).Line})
				}
			}
		}
		return true
	})
	written := 0
	for i, m := range ms {
		if i%every != 0 || written >= max {
			continue
		}
		mutated := string(src[:m.off]) + m.repl + string(src[m.end:])
		if err := os.WriteFile(path, []byte(mutated), 0o644); err != nil {
			continue
		}
		cmd := exec.Command("go", "build", "./"+filepath.Dir(file))
		cmd.Dir = repo
		cmd.Env = append(os.Environ(), "GOFLAGS=-mod=mod", "GOPROXY=off")
		berr := cmd.Run()
		if berr == nil {
			diff := exec.Command("git", "diff")
			diff.Dir = repo
			d, _ := diff.Output()
			if len(d) > 0 {
				id := fmt.Sprintf("M-%s-%s-L%d-%d", strings.TrimSuffix(filepath.Base(file), ".go"), fn, m.line, i)
				dir := filepath.Join(out, id)
				os.MkdirAll(dir, 0o755)
				os.WriteFile(filepath.Join(dir, "patch.diff"), d, 0o644)
				os.WriteFile(filepath.Join(dir, "notes.txt"), []byte(fmt.Sprintf("%s %s line %d: %s\n", file, fn, m.line, m.what)), 0o644)
				written++
			}
		}
		os.WriteFile(path, src, 0o644)
	}
	return written
}
