module mutgen

go 1.21
